#!/bin/bash
# MANIFEST.setup_cmd: offline; makes sure the interpreter that has the repository's dependencies can also
# import hypothesis (installing it from the local wheelhouse into /verif/.deps only if it is missing).
HERE="$(cd "$(dirname "${BASH_SOURCE[0]}")" && pwd)"
cd "$HERE" || exit 2
PY="${MHLVERIF_PYTHON:-/venv/bin/python}"
export PIP_NO_INDEX=1
if ! "$PY" -c "import hypothesis" 2>/dev/null; then
  "$PY" -m pip install --no-index --find-links /opt/veriftools/wheels --target "$HERE/.deps" hypothesis || exit 2
fi
if ! "$PY" -c "import freezegun" 2>/dev/null; then
  "$PY" -m pip install --no-index --find-links /opt/veriftools/wheels --target "$HERE/.deps" freezegun || true
fi
PYTHONPATH="$HERE/.deps:$HERE" "$PY" - <<'PY' || exit 2
import hypothesis, lxml, xxhash, click, ascmhl, os
import mhlverif.runner, mhlverif.world, mhlverif.refhash, mhlverif.refxml
print("setup ok: hypothesis", hypothesis.__version__, "ascmhl from", os.path.dirname(ascmhl.__file__))
PY
mkdir -p "$HERE/evidence" "$HERE/failures"

"""Model-based generation of operation histories (tree edits interleaved with commands) as plain data, and
their execution against a World.  The generator carries a small model of the tree so that every drawn
operation is applicable (construction, not rejection); property modules observe each step through hooks.

scenario = {"root": <name of the top folder>, "tree": <nested dict>, "steps": [step, ...]}
step     = {"op": ..., ...}; paths are relative to the top folder ("" = the top folder itself)
"""
from hypothesis import strategies as st

from . import gen

EDIT_OPS = ("put_new", "overwrite", "rm", "rmtree", "mkdir", "mv", "touch", "restore")


class GenModel:
    def __init__(self, tree):
        self.files = {}
        self.dirs = set()
        self.roots = []
        self.original = {}
        self._load("", tree)

    def _load(self, prefix, tree):
        for n, c in tree.items():
            p = prefix + n
            if isinstance(c, dict):
                self.dirs.add(p)
                self._load(p + "/", c)
            else:
                self.files[p] = c

    def parents(self, p):
        parts = p.split("/")[:-1]
        return ["/".join(parts[: i + 1]) for i in range(len(parts))]

    def apply(self, step):
        op = step["op"]
        if op in ("put_new", "overwrite", "restore"):
            for d in self.parents(step["path"]):
                self.dirs.add(d)
            if op == "overwrite" and step["path"] in self.files:
                self.original.setdefault(step["path"], self.files[step["path"]])
            self.files[step["path"]] = step["spec"]
        elif op == "rm":
            self.files.pop(step["path"], None)
        elif op == "rmfiles":
            for f in self.files_under(step["path"]):
                self.files.pop(f, None)
        elif op == "rmtree":
            p = step["path"]
            for f in [f for f in self.files if f.startswith(p + "/")]:
                del self.files[f]
            for d in [d for d in self.dirs if d == p or d.startswith(p + "/")]:
                self.dirs.discard(d)
            self.roots = [r for r in self.roots if not (r == p or r.startswith(p + "/"))]
        elif op == "mkdir":
            for d in self.parents(step["path"] + "/x"):
                self.dirs.add(d)
        elif op == "mv":
            s, d = step["src"], step["dst"]
            for x in self.parents(d):
                self.dirs.add(x)
            if s in self.files:
                self.files[d] = self.files.pop(s)
            else:
                for f in [f for f in self.files if f.startswith(s + "/")]:
                    self.files[d + f[len(s):]] = self.files.pop(f)
                for x in [x for x in self.dirs if x == s or x.startswith(s + "/")]:
                    self.dirs.discard(x)
                    self.dirs.add(d + x[len(s):])
                self.roots = [d + r[len(s):] if (r == s or r.startswith(s + "/")) else r for r in self.roots]
        elif op in ("create", "create_sf"):
            if step["root"] not in self.roots:
                self.roots.append(step["root"])

    def files_under(self, root):
        return sorted(f for f in self.files if root == "" or f.startswith(root + "/"))

    def dirs_under(self, root):
        return sorted(d for d in self.dirs if root == "" or d.startswith(root + "/"))

    def has_root_below(self, p):
        return any(r == p or r.startswith(p + "/") for r in self.roots)


def _pick(draw, seq):
    return draw(st.sampled_from(list(seq)))


def draw_step(draw, m, kind, cfg):
    """-> step dict or None when the kind is not applicable to the current model"""
    nm = gen.names(cfg.get("names", "full"))
    if kind in ("create", "create_sf"):
        choices = [""]
        if cfg.get("nest", True):
            below = [d for d in sorted(m.dirs) if any(r and d.startswith(r + "/") for r in m.roots)]
            choices += m.roots + m.roots + sorted(m.dirs) + sorted(m.dirs) + below + below  # chains of nested histories
        elif m.roots:
            choices = m.roots
        root = _pick(draw, choices) if len(choices) > 1 else choices[0]
        if cfg.get("first_root") is not None and not m.roots:
            root = cfg["first_root"]
        fmts = draw(cfg.get("formats", gen.formats()))
        flags = []
        for flag, p in cfg.get("flags", {"-n": 0.15, "-v": 0.1}).items():
            k = max(1, round(p * 10))
            if draw(st.sampled_from([True] * k + [False] * (10 - k))):
                flags.append(flag)
        step = {"op": "create", "root": root, "formats": fmts, "flags": flags}
        if cfg.get("extra") is not None:
            step["extra"] = draw(cfg["extra"])
        if kind == "create_sf":
            cand = sorted(set(m.files_under(root) + m.dirs_under(root)))
            if not cand:
                return None
            k = draw(st.integers(1, min(3, len(cand))))
            sel = draw(st.lists(st.sampled_from(cand), min_size=k, max_size=k, unique=cfg.get("sf_unique", True)))
            if cfg.get("sf_overlap") and draw(st.sampled_from([True, False, False])):
                # selections that reach a file twice: a folder together with something inside it, or the root itself
                x = sel[0]
                inside = [c for c in cand if c.startswith(x + "/")]
                if inside:
                    sel.append(draw(st.sampled_from(inside)))
                elif "/" in x and x.rsplit("/", 1)[0] != root and x.rsplit("/", 1)[0].startswith(root):
                    sel.insert(0, x.rsplit("/", 1)[0])
                elif cfg.get("sf_root"):
                    sel.insert(draw(st.integers(0, len(sel))), root)
            step["op"] = "create_sf"
            step["sf"] = sel
            step["flags"] = [f for f in flags if f != "-n"]
        return step
    if kind == "put_new":
        parent = _pick(draw, [""] + sorted(m.dirs))
        extra = draw(st.lists(nm, min_size=0, max_size=1))
        name = draw(nm)
        p = "/".join([x for x in [parent] + extra + [name] if x != ""])
        if p in m.files or p in m.dirs or any(q in m.files for q in m.parents(p)):
            return None
        return {"op": "put_new", "path": p, "spec": draw(gen.contents())}
    if kind == "overwrite":
        if not m.files:
            return None
        p = _pick(draw, sorted(m.files))
        spec = draw(gen.contents())
        if spec == m.files[p]:
            spec = "changed:" + (spec if isinstance(spec, str) else "x")
        return {"op": "overwrite", "path": p, "spec": spec}
    if kind == "restore":
        cand = sorted(p for p in m.original if p in m.files and m.files[p] != m.original[p])
        if not cand:
            return None
        p = _pick(draw, cand)
        return {"op": "restore", "path": p, "spec": m.original[p]}
    if kind == "rm":
        if not m.files:
            return None
        return {"op": "rm", "path": _pick(draw, sorted(m.files))}
    if kind == "rmfiles":
        cand = [d for d in [""] + sorted(m.dirs) if m.files_under(d)]
        if not cand:
            return None
        return {"op": "rmfiles", "path": _pick(draw, cand)}
    if kind == "rmtree":
        cand = [d for d in sorted(m.dirs) if cfg.get("rm_histories", False) or not m.has_root_below(d)]
        if not cand:
            return None
        return {"op": "rmtree", "path": _pick(draw, cand)}
    if kind == "mkdir":
        parent = _pick(draw, [""] + sorted(m.dirs))
        name = draw(nm)
        p = (parent + "/" if parent else "") + name
        if p in m.files or p in m.dirs:
            return None
        return {"op": "mkdir", "path": p}
    if kind == "mv":
        cand = sorted(m.files) + [d for d in sorted(m.dirs) if not m.has_root_below(d)]
        if not cand:
            return None
        src = _pick(draw, cand)
        parents = [d for d in [""] + sorted(m.dirs) if not (d == src or d.startswith(src + "/"))]
        parent = _pick(draw, parents)
        name = draw(st.one_of(nm, st.just(src.split("/")[-1])))
        dst = (parent + "/" if parent else "") + name
        if dst in m.files or dst in m.dirs or dst == src:
            return None
        return {"op": "mv", "src": src, "dst": dst}
    if kind == "touch":
        cand = sorted(m.files) + sorted(m.dirs)
        if not cand:
            return None
        return {"op": "touch", "path": _pick(draw, cand), "t": draw(st.integers(400000000, 2000000000))}
    if kind == "flatten":
        if not m.roots:
            return None
        step = {"op": "flatten", "root": _pick(draw, m.roots), "dest": "out%d" % draw(st.integers(0, 2))}
        if cfg.get("extra") is not None:
            step["extra"] = draw(cfg["extra"])
        return step
    if kind in ("verify", "diff", "info"):
        roots = m.roots or [""]
        return {"op": kind, "root": _pick(draw, roots)}
    raise ValueError(kind)


@st.composite
def scenarios(draw, cfg):
    rootname = draw(gen.names(cfg.get("names", "full")))
    if rootname.startswith("_"):
        rootname = "r" + rootname  # (names like _flat, _ii, _pl are the harness's own folders beside the root)
    tree = draw(gen.trees(cfg.get("names", "full"), max_leaves=cfg.get("max_leaves", 12), min_top=cfg.get("min_top", 1)))
    m = GenModel(tree)
    steps = []
    n = draw(st.integers(cfg.get("min_steps", 1), cfg.get("max_steps", 8)))
    kinds = cfg["kinds"]
    for _ in range(n):
        kind = _pick(draw, kinds)
        step = draw_step(draw, m, kind, cfg)
        if step is None:
            step = draw_step(draw, m, cfg.get("fallback", "create"), cfg)
        if step is None:
            continue
        steps.append(step)
        m.apply(step)
    for kind in cfg.get("final", ()):
        step = draw_step(draw, m, kind, cfg)
        if step is not None:
            steps.append(step)
            m.apply(step)
    if cfg.get("long", True) and draw(st.integers(0, cfg.get("long_every", 15) - 1)) == 0:
        # a long history: ten and more generations of one root (two-digit generation numbers, chains with >= 10 entries)
        root = _pick(draw, m.roots) if m.roots else ""
        for i in range(draw(st.integers(9, 12))):
            step = {"op": "create", "root": root, "formats": draw(cfg.get("formats", gen.formats())), "flags": []}
            if cfg.get("extra") is not None:
                step["extra"] = []
            steps.append(step)
            m.apply(step)
    scn = {"root": rootname, "tree": tree, "steps": steps}
    if cfg.get("spell", True):
        # how the root folder is typed in every command of this scenario: absolute, with a trailing separator,
        # relative to the parent directory, or as "." from inside
        scn["spell"] = draw(st.sampled_from(["abs", "abs", "abs", "slash", "rel", "dot"]))
    if cfg.get("sf_spell", True) and any(s_["op"] == "create_sf" for s_ in steps):
        # how -sf paths are typed: as they are, or in a form that is not normalised (a/./b, a/../a/b)
        scn["sf_spell"] = draw(st.sampled_from([None, None, None, "dotslash", "dotdot"]))
    return scn


def top_names_used(scn):
    """top-level names that the tree or any step of the scenario refers to (extras planted afterwards must avoid them)"""
    used = set(scn["tree"])
    for st_ in scn["steps"]:
        for k in ("path", "src", "dst", "root"):
            if st_.get(k):
                used.add(st_[k].split("/")[0])
        for x in st_.get("sf", ()) or ():
            used.add(x.split("/")[0])
    return used


@st.composite
def scenarios_deep(draw, cfg):
    """scenarios(cfg), in a third of the cases with a chain of nested histories (depth 2-4) planted first"""
    scn = draw(scenarios(cfg))
    if draw(st.integers(0, 3)) == 0:
        # a nested history beside a plain folder / file whose name merely extends the history folder's name
        base = draw(st.sampled_from(["Clips", "s", "A", "Reel1"]))
        sib = base + draw(st.sampled_from(["_proxy", "2", "0", ".txt", " b"]))
        if not ({base, sib} & top_names_used(scn)):
            scn["tree"][base] = {"in.mov": "inside " + base}
            scn["tree"][sib] = {"next.mov": "beside " + base} if draw(st.booleans()) else "a file beside"
            scn["steps"] = [{"op": "create", "root": base, "formats": draw(cfg.get("formats", gen.formats())), "flags": []}] + scn["steps"]
    if draw(st.integers(0, 2)) == 0 and "d1" not in top_names_used(scn):
        scn["tree"]["d1"] = {"d2": {"d3": {"d4": {"leaf.txt": "x"}, "f3.txt": "y"}, "f2.txt": "z"}, "f1.txt": "w"}
        chain = ["d1", "d1/d2", "d1/d2/d3", "d1/d2/d3/d4"]
        picks = draw(st.lists(st.sampled_from(chain), min_size=2, max_size=4, unique=True))
        pre = [{"op": "create", "root": d, "formats": draw(cfg.get("formats", gen.formats())), "flags": []} for d in picks]
        scn["steps"] = pre + scn["steps"]
    return scn


# -------------------------------------------------------------------------------------------- execution
def wpath(scn, rel):
    """scenario path -> world path"""
    return scn["root"] + ("/" + rel if rel else "")


def apply_step(world, scn, step, **kw):
    """apply one step; returns the Result for command steps, None for edits"""
    op = step["op"]
    if op in ("create", "create_sf", "verify", "diff") and "spell" not in kw and scn.get("spell"):
        kw["spell"] = scn["spell"]
    W = lambda p: wpath(scn, p)
    if op in ("put_new", "overwrite", "restore"):
        world.put(W(step["path"]), step["spec"])
    elif op == "rm":
        world.rm(W(step["path"]))
    elif op == "rmfiles":
        for f in [f for f in sorted(world.files) if world.under(f, W(step["path"])) and not world.is_default_ignored(f)]:
            world.rm(f)
    elif op == "rmtree":
        world.rmtree(W(step["path"]))
    elif op == "mkdir":
        world.mkdir(W(step["path"]))
    elif op == "mv":
        world.mv(W(step["src"]), W(step["dst"]))
    elif op == "touch":
        world.touch(W(step["path"]), step["t"])
    elif op == "create":
        return world.create(W(step["root"]), step["formats"], flags=step.get("flags", ()), extra=step.get("extra", ()), **kw)
    elif op == "create_sf":
        if scn.get("sf_spell") and "sf_spell" not in kw:
            kw["sf_spell"] = scn["sf_spell"]
        return world.create(
            W(step["root"]), step["formats"], sf=[W(s) for s in step["sf"]], flags=step.get("flags", ()),
            extra=step.get("extra", ()), **kw
        )
    elif op == "flatten":
        return world.flatten(W(step["root"]), "_flat/" + step["dest"], flags=step.get("extra", ()), **kw)
    elif op == "verify":
        return world.verify(W(step["root"]), flags=step.get("flags", ()), **kw)
    elif op == "diff":
        return world.diff(W(step["root"]), **kw)
    elif op == "info":
        return world.info(W(step["root"]), **kw)
    else:
        raise ValueError(op)
    return None


def setup_world(world, scn):
    world.build(scn["root"], scn["tree"])

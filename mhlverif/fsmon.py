"""File-system monitors: an audit hook that lists mutating file-system calls made while it is switched on."""
import os
import sys
import threading

_state = {"on": False, "events": None, "installed": False, "thread": None}
_WRITE_FLAGS = os.O_WRONLY | os.O_RDWR | os.O_CREAT | os.O_TRUNC | os.O_APPEND
_MUTATING = {
    "os.mkdir", "os.rename", "os.remove", "os.rmdir", "os.utime", "os.chmod", "os.chown", "os.truncate", "os.link", "os.symlink",
    "shutil.copyfile", "shutil.move", "shutil.rmtree", "shutil.copytree", "shutil.copymode", "shutil.copystat", "shutil.make_archive",
    "tempfile.mkstemp", "tempfile.mkdtemp", "os.mkfifo", "os.mknod",
}


def _hook(event, args):
    if not _state["on"] or threading.get_ident() != _state["thread"]:
        return
    try:
        if event == "open":
            path, mode, flags = args[0], args[1], args[2]
            if isinstance(path, int):
                return
            w = (flags or 0) & _WRITE_FLAGS if isinstance(flags, int) else 0
            if mode and any(c in mode for c in "wax+"):
                w = 1
            if w:
                _state["events"].append(("open-write", os.fsdecode(path)))
        elif event in _MUTATING:
            paths = [os.fsdecode(a) for a in args if isinstance(a, (str, bytes, os.PathLike))]
            _state["events"].append((event, paths[0] if paths else "?") if len(paths) < 2 else (event, paths[0], paths[1]))
    except Exception as e:  # never let the hook break the command
        _state["events"].append(("hook-error", repr(e)))


class monitor:
    """with monitor() as events: ...  -> list of (event, path[, path2]) for mutating calls in this thread"""

    def __enter__(self):
        if not _state["installed"]:
            sys.addaudithook(_hook)
            _state["installed"] = True
        self.events = []
        _state["events"] = self.events
        _state["thread"] = threading.get_ident()
        _state["on"] = True
        return self.events

    def __exit__(self, *a):
        _state["on"] = False
        return False

"""File-system monitors: an audit hook that lists mutating file-system calls made while it is switched on."""
import os
import sys
import threading

_state = {"on": False, "events": None, "installed": False, "thread": None}
_WRITE_FLAGS = os.O_WRONLY | os.O_RDWR | os.O_CREAT | os.O_TRUNC | os.O_APPEND
_MUTATING = {
    "os.mkdir", "os.rename", "os.remove", "os.rmdir", "os.utime", "os.chmod", "os.chown", "os.truncate", "os.link", "os.symlink",
    "shutil.copyfile", "shutil.move", "shutil.rmtree", "shutil.copytree", "shutil.copymode", "shutil.copystat", "shutil.make_archive",
    "tempfile.mkstemp", "tempfile.mkdtemp", "os.mkfifo", "os.mknod",
}


def _hook(event, args):
    if not _state["on"] or threading.get_ident() != _state["thread"]:
        return
    try:
        if event == "open":
            path, mode, flags = args[0], args[1], args[2]
            if isinstance(path, int):
                return
            w = (flags or 0) & _WRITE_FLAGS if isinstance(flags, int) else 0
            if mode and any(c in mode for c in "wax+"):
                w = 1
            if w:
                _state["events"].append(("open-write", os.path.abspath(os.fsdecode(path))))
        elif event in _MUTATING:
            paths = [os.path.abspath(os.fsdecode(a)) for a in args if isinstance(a, (str, bytes, os.PathLike))]
            _state["events"].append((event, paths[0] if paths else "?") if len(paths) < 2 else (event, paths[0], paths[1]))
    except Exception as e:  # never let the hook break the command
        _state["events"].append(("hook-error", repr(e)))


class monitor:
    """with monitor() as events: ...  -> list of (event, path[, path2]) for mutating calls in this thread"""

    def __enter__(self):
        if not _state["installed"]:
            sys.addaudithook(_hook)
            _state["installed"] = True
        self.events = []
        _state["events"] = self.events
        _state["thread"] = threading.get_ident()
        _state["on"] = True
        return self.events

    def __exit__(self, *a):
        _state["on"] = False
        return False


# ------------------------------------------------------------------------------------------------ crash injection
import builtins
from unittest import mock


class CrashNow(BaseException):
    """raised at the injected crash point; a BaseException so that no 'except Exception' of the tool swallows it"""


class _CrashFile:
    """write-mode file that models Python's buffered writer: bytes passed to write() stay in a user-space buffer and
    reach the disk only at flush(), at close(), or when the buffer exceeds 8 KiB; each of those disk writes is one
    individually interruptible operation ("flush").  A kill discards whatever is still buffered."""

    BUFSIZE = 8192

    def __init__(self, fs, path, mode):
        self._fs = fs
        self._path = path
        fs._op("open", path)
        if "r" in mode and "+" in mode:
            self._f = fs._real_open(path, "r+b", buffering=0)  # in-place edit: no truncation at open
        else:
            self._f = fs._real_open(path, mode if "b" in mode else mode + "b", buffering=0)
        self._text = "b" not in mode
        self._buf = bytearray()
        self.closed = False
        self.name = path
        self.mode = mode

    def _to_disk(self, why):
        if not self._buf:
            return
        data = bytes(self._buf)
        act = self._fs._op("flush", self._path, len(data))
        if act == "half":
            self._f.write(data[: len(data) // 2])
            self._fs.crashed = True
            raise CrashNow()
        self._f.write(data)
        del self._buf[:]

    def write(self, data):
        if self._fs.crashed:
            raise CrashNow()
        if self._text and isinstance(data, str):
            data = data.encode("utf-8")
        self._fs._note("write", self._path, len(data))
        self._buf += data
        if len(self._buf) > self.BUFSIZE:
            self._to_disk("buffer full")
        return len(data)

    def flush(self):
        if self._fs.crashed:
            return
        self._to_disk("flush")

    def close(self):
        if not self.closed:
            self.closed = True
            try:
                if not self._fs.crashed:
                    self._to_disk("close")
                    self._fs._op("close", self._path)
            finally:
                self._f.close()

    def __enter__(self):
        return self

    def __exit__(self, *a):
        self.close()
        return False

    def fileno(self):
        return self._f.fileno()

    def writable(self):
        return True

    def readable(self):
        return "+" in self.mode or "r" in self.mode

    def seekable(self):
        return True

    # random access (files opened "r+b" and edited in place): like Python's BufferedRandom, pending bytes are
    # written out before the position changes or anything is read back
    def seek(self, offset, whence=0):
        if not self._fs.crashed:
            self._to_disk("seek")
        return self._f.seek(offset, whence)

    def tell(self):
        return self._f.tell() + len(self._buf)

    def read(self, n=-1):
        if not self._fs.crashed:
            self._to_disk("read")
        return self._f.read() if n is None or n < 0 else self._f.read(n)

    def truncate(self, size=None):
        if self._fs.crashed:
            raise CrashNow()
        self._to_disk("truncate")
        self._fs._op("truncate", self._path)
        return self._f.truncate(size if size is not None else self._f.tell())


class CrashFS:
    """interposes open-for-write, mkdir, rename/replace and remove below `base`.

    crash_at = None: record only.  crash_at = (k, 'before'): raise CrashNow instead of performing operation k.
    crash_at = (k, 'half'): operation k must be a flush (buffered bytes going to disk); half of them arrive, then CrashNow.
    After the crash every further mutation is refused, so clean-up code cannot alter the disk."""

    def __init__(self, base, crash_at=None):
        self.base = os.path.realpath(base)
        self.crash_at = crash_at
        self.ops = []
        self.targets = set()
        self.notes = []
        self.crashed = False
        self.fired = False
        self._real_open = builtins.open
        self._real = {n: getattr(os, n) for n in ("mkdir", "rename", "replace", "remove", "rmdir", "unlink", "makedirs")}

    def _inside(self, path):
        try:
            p = os.path.abspath(os.fsdecode(path))
        except TypeError:
            return False
        return p == self.base or p.startswith(self.base + os.sep)

    def _op(self, kind, path, n=0, dst=None):
        if self.crashed:
            raise CrashNow()
        idx = len(self.ops)
        rel = os.path.relpath(os.fsdecode(path), self.base)
        if dst is not None:
            self.targets.add(os.path.relpath(os.fsdecode(dst), self.base))
        self.targets.add(rel)
        self.ops.append((kind, rel, n))
        if self.crash_at is not None and self.crash_at[0] == idx and not self.fired:
            self.fired = True
            if self.crash_at[1] == "before":
                self.crashed = True
                raise CrashNow()
            if self.crash_at[1] == "interrupt":
                # like Ctrl-C / SIGTERM: the exception is delivered here, but clean-up code of the tool may still run
                raise KeyboardInterrupt()
            return "half"
        return None

    def _note(self, kind, path, n=0):
        """an event without effect on the disk (kept for the record, never a crash point)"""
        self.notes.append((kind, os.path.relpath(os.fsdecode(path), self.base), n))

    def open(self, file, mode="r", *a, **kw):
        if isinstance(file, (str, bytes, os.PathLike)) and any(c in mode for c in "wax+") and self._inside(file):
            return _CrashFile(self, os.fsdecode(file), mode)
        return self._real_open(file, mode, *a, **kw)

    def _wrap(self, name):
        real = self._real[name]

        def f(path, *a, **kw):
            if self._inside(path):
                self._op(name, path, dst=a[0] if (a and name in ("rename", "replace")) else None)
            return real(path, *a, **kw)

        return f

    def __enter__(self):
        self._patches = [mock.patch.object(builtins, "open", self.open)]
        for n in self._real:
            self._patches.append(mock.patch.object(os, n, self._wrap(n)))
        for p in self._patches:
            p.start()
        return self

    def __exit__(self, *a):
        for p in reversed(self._patches):
            p.stop()
        return False

"""Reference digests, c4 codec and directory-hash model.

Nothing in here imports ascmhl: digests come straight from hashlib / xxhash, the c4 text form
from a divmod encoder of our own, the directory hashes from the compositional definition of
property C07 evaluated over a plain nested dict.
"""
import hashlib
import re

import xxhash

CLI_FORMATS = ["c4", "md5", "sha1", "xxh128", "xxh3", "xxh64"]
ALL_FORMATS = CLI_FORMATS + ["xxh32"]

_B58 = "123456789ABCDEFGHJKLMNPQRSTUVWXYZabcdefghijkmnopqrstuvwxyz"
_B58_INDEX = {c: i for i, c in enumerate(_B58)}

_RAW = {
    "md5": hashlib.md5,
    "sha1": hashlib.sha1,
    "c4": hashlib.sha512,
    "xxh32": xxhash.xxh32,
    "xxh64": xxhash.xxh64,
    "xxh3": xxhash.xxh3_64,
    "xxh128": xxhash.xxh3_128,
}

CANONICAL = {
    "md5": re.compile(r"^[0-9a-f]{32}$"),
    "sha1": re.compile(r"^[0-9a-f]{40}$"),
    "xxh32": re.compile(r"^[0-9a-f]{8}$"),
    "xxh64": re.compile(r"^[0-9a-f]{16}$"),
    "xxh3": re.compile(r"^[0-9a-f]{16}$"),
    "xxh128": re.compile(r"^[0-9a-f]{32}$"),
    "c4": re.compile(r"^c4[1-9A-HJ-NP-Za-km-z]{88}$"),
}


def c4_encode_int(value: int) -> str:
    """'c4' + 88 base-58 digits, most significant first, '1' is the zero digit."""
    assert 0 <= value < 2**512
    digits = []
    for _ in range(88):
        value, r = divmod(value, 58)
        digits.append(_B58[r])
    assert value == 0  # 58**88 > 2**512
    return "c4" + "".join(reversed(digits))


def c4_decode_int(text: str) -> int:
    assert text.startswith("c4") and len(text) == 90, text
    v = 0
    for ch in text[2:]:
        v = v * 58 + _B58_INDEX[ch]
    return v


def raw_digest(fmt: str, data: bytes) -> bytes:
    return _RAW[fmt](data).digest()


def digest(fmt: str, data: bytes) -> str:
    """canonical text form of the standard digest of data"""
    raw = raw_digest(fmt, data)
    if fmt == "c4":
        return c4_encode_int(int.from_bytes(raw, "big"))
    return raw.hex()


def decode(fmt: str, text: str) -> bytes:
    """digest text -> digest bytes"""
    if fmt == "c4":
        return c4_decode_int(text).to_bytes(64, "big")
    return bytes.fromhex(text)


def encode(fmt: str, raw: bytes) -> str:
    if fmt == "c4":
        return c4_encode_int(int.from_bytes(raw, "big"))
    return raw.hex()


def hash_of_digests(fmt: str, texts) -> str:
    """digest of the concatenation of the decoded digests taken in sorted (text) order"""
    return digest(fmt, b"".join(decode(fmt, t) for t in sorted(texts)))


def dirhash(tree: dict, fmt: str):
    """tree: name -> bytes (file) | dict (directory).  Returns (content, structure, table) where table maps
    the '/'-joined relative path of every sub-directory ('' for the tree itself) to (content, structure)."""
    table = {}

    def walk(node, prefix):
        content_digests = []
        bindings = []
        for name, child in node.items():
            if isinstance(child, dict):
                c, s = walk(child, prefix + name + "/")
                content_digests.append(c)
                bindings.append(digest(fmt, name.encode("utf-8") + decode(fmt, s)))
            else:
                d = digest(fmt, child)
                content_digests.append(d)
                bindings.append(digest(fmt, name.encode("utf-8") + decode(fmt, d)))
        c = hash_of_digests(fmt, content_digests)
        s = hash_of_digests(fmt, bindings)
        table[prefix.rstrip("/")] = (c, s)
        return c, s

    c, s = walk(tree, "")
    return c, s, table

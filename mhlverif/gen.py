"""Hypothesis strategies shared by the property modules.  Everything produced is plain JSON data."""
from hypothesis import strategies as st

from .refhash import CLI_FORMATS

RESERVED = {".", "..", "ascmhl", ".DS_Store", ""}

_SPECIAL_NAMES = [
    "a b", " lead", "trail ", ".hidden", "a.b.c", "x&y", "<tag>", 'q"uote', "it's", "&amp;", "]]>", "<!--c-->",
    "\u00e4", "\u00c4", "e\u0301a", "\u00e9a", "\u65e5\u672c\u8a9e", "\u4e2d", "\U0001f600", "\U0001f3acclip",
    "\u05e9\u05dc\u05d5\u05dd", "a\u00a0b", "a\u3000b", "#hash", "!bang", "star*",
    "q?", "[br]", "back\\slash", "semi;colon", "%41", "$HOME", "~", "-dash", "--opt", "a,b", "a=b", "@at", "`tick`",
    "Reel[A001]", "card[2]", "x[!a]y", "{a,b}", "reel%d", "100%", "%H%M", "day%Y_%m", "%", "%%", "a\\b",
    "s", "s2", "s.txt", "S", "Stuff.txt", "0001_x.mhl", "ascmhl2", "ascmh", "xascmhl", "ascmhl_chain.xml", "DS_Store",
    "a\u200bb", "\ufb01", "n\u0303", "\u00f1", "\u043a\u0438\u0440", "\u03b5\u03bb", " ", "  ", "tab.tar.gz", "CON", "aux.",
]

_PLAIN_ALPHA = "abcdefghijklmnopqrstuvwxyzABCDEXYZ0123456789_-"
_EXT = ["", "", ".txt", ".mov", ".r3d", ".xml", ".mhl", ".dpx", ".jpg"]


TRICKY_NAMES = [
    # not in Unicode normal form C (decomposed accents, singletons that NFC rewrites)
    "cafe\u0301.txt", "Cafe\u0301", "A\u030angstrom", "\u212bngstrom.mov", "\u1e9b\u0323", "o\u0302\u0323", "\u2126hm", "\uf900", "e\u0301e\u0301",
    # the same names composed (siblings that differ in normal form only)
    "caf\u00e9.txt", "Caf\u00e9",
    # characters special to printf-style / strftime formatting, glob, shells and option parsers
    "100% final", "take 100%.mov", "%s", "%d%d", "50%%", "reel%d", "%(x)s", "{0}", "{name}", "Reel[A001]", "card[2]", "-v", "--", "-0",
    "my notes.txt", "Camera Reports", "a  b", "tab\u2003wide",
    # names that look like path syntax: leading double dots, backslashes (an ordinary character on POSIX)
    "..metadata", "...", "..sync state", "take\\1.bin", "a\\b", "C:\\clip.mov", "back\\",
    # Unicode line / paragraph separators (category Zl / Zp, not control characters)
    "Cam\u2029 A", "a\u2028b", "\u2028",
]


def plain_names():
    return st.builds(lambda s, e: s + e, st.text(_PLAIN_ALPHA, min_size=1, max_size=7), st.sampled_from(_EXT))


def unicode_names():
    return st.text(
        st.characters(
            whitelist_categories=["Lu", "Ll", "Lt", "Lm", "Lo", "Mn", "Mc", "Nd", "Nl", "No", "Pc", "Pd", "Ps", "Pe",
                                  "Pi", "Pf", "Po", "Sm", "Sc", "Sk", "So", "Zs"],
            blacklist_characters="/\x00",
        ),
        min_size=1,
        max_size=6,
    )


def names(kind="full"):
    """path components.  kind: 'plain' (literal-safe for patterns) | 'full'"""
    if kind == "plain":
        base = plain_names()
    else:
        base = st.one_of(plain_names(), plain_names(), st.sampled_from(_SPECIAL_NAMES), unicode_names(), st.sampled_from(TRICKY_NAMES))
    return base.filter(lambda n: n not in RESERVED and len(n.encode("utf-8")) <= 60 )


_POOL = ["c0", "c1", "c2", "c3", "same", "same", "stuff\n", "A1\n", "<xml/>", "\x00\x01\x02"]


def contents():
    """content spec: utf-8 text or [hex pattern, length]"""
    return st.one_of(
        st.sampled_from(_POOL),
        st.just(""),
        st.text(max_size=12),
        st.tuples(st.binary(min_size=1, max_size=8).map(bytes.hex), st.integers(0, 5000)).map(list),
    )


def trees(kind="full", max_leaves=14, max_children=5, min_top=0):
    """nested dict: name -> content spec | subtree"""
    nm = names(kind)
    ct = contents()
    sub = st.recursive(
        st.dictionaries(nm, ct, max_size=max_children),
        lambda sub: st.dictionaries(nm, st.one_of(ct, ct, sub), max_size=max_children),
        max_leaves=max_leaves,
    )
    if not min_top:
        return sub
    # a top level with at least min_top entries, sub-directories likely
    return st.dictionaries(nm, st.one_of(ct, sub), min_size=min_top, max_size=max_children)


def formats(max_size=3):
    """non-empty list of CLI formats, duplicates possible, weighted towards few"""
    return st.one_of(
        st.lists(st.sampled_from(CLI_FORMATS), min_size=1, max_size=1),
        st.lists(st.sampled_from(CLI_FORMATS), min_size=1, max_size=2),
        st.lists(st.sampled_from(CLI_FORMATS), min_size=1, max_size=max_size),
    )


def format_sets(max_size=6):
    return st.lists(st.sampled_from(CLI_FORMATS), min_size=1, max_size=max_size, unique=True)


# ---------------------------------------------------------------- helpers over tree dicts
def tree_files(tree, prefix=""):
    out = []
    for n, c in tree.items():
        p = prefix + n
        if isinstance(c, dict):
            out += tree_files(c, p + "/")
        else:
            out.append(p)
    return out


def tree_dirs(tree, prefix=""):
    out = []
    for n, c in tree.items():
        if isinstance(c, dict):
            p = prefix + n
            out.append(p)
            out += tree_dirs(c, p + "/")
    return out


def tree_depth(tree):
    d = 0
    for c in tree.values():
        if isinstance(c, dict):
            d = max(d, 1 + tree_depth(c))
    return d


def has_special_name(tree):
    for n, c in tree.items():
        if any(ord(ch) > 127 or ch in "&<>\"' " for ch in n):
            return True
        if isinstance(c, dict) and has_special_name(c):
            return True
    return False


def spec_is_empty(spec):
    return spec == "" or (isinstance(spec, list) and spec[1] == 0)

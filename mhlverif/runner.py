"""Tiers, seeds, sharding, failure collection + shrinking, known findings, evidence, exit codes.

Exit codes: 0 held on everything explored (KNOWN-FINDING lines allowed) / 1 at least one VIOLATION line /
2 harness error (never reported as a violation).
"""
import argparse
import collections
import hashlib
import importlib
import json
import multiprocessing
import os
import sys
import time
import traceback

HERE = os.path.dirname(os.path.dirname(os.path.abspath(__file__)))
REPO = os.environ.get("MHLVERIF_REPO", "/repo")


class HarnessError(Exception):
    pass


def scenario_hash(scn):
    return hashlib.sha1(json.dumps(scn, sort_keys=True, ensure_ascii=True).encode()).hexdigest()[:16]


class Ctx:
    """per-shard bookkeeping handed to run_case"""

    def __init__(self, mod, tier):
        self.mod = mod
        self.tier = tier
        self.repo = REPO
        self.evaluations = 0
        self.events = collections.Counter()
        self.nontrivial = set()
        self.samples = []
        self.known = collections.Counter()
        self.failures = {}  # sig -> dict(scenario, clause, detail, n)
        self.ignored_sigs = set()
        self.focus_sig = None
        self.shrink_deadline = None
        self.harness_error = None
        self.deadline = None
        self._cur = None
        self._cur_nt = False
        self.skipped = 0
        self.excluded = collections.Counter()
        self.commands = 0
        self.known_list = load_known_findings()

    # -- called by property modules
    def event(self, label, n=1):
        self.events[label] += n

    def mark_nontrivial(self, flag=True):
        if flag:
            self._cur_nt = True

    def known_inline(self, scn, violation):
        """for modules that enumerate many sub-cases inside one case: is this violation an instance of a listed,
        unrepaired finding?  (counted like any other KNOWN-FINDING; returns the finding id or None)"""
        kid = match_known(self.mod, scn, violation, self.known_list)
        if kid is not None:
            self.known[kid] += 1
        return kid

    def exclude(self, label):
        """a case of a known-finding class was steered away from by construction"""
        self.excluded[label] += 1

    # -- runner side
    def begin(self, scn):
        self._cur = scn
        self._cur_nt = False
        self._cur_trace = None

    def end(self, world_trace=None):
        self.evaluations += 1
        if self._cur_nt:
            h = scenario_hash(self._cur)
            if h not in self.nontrivial:
                self.nontrivial.add(h)
                if len(self.samples) < 3:
                    s = {"scenario": self._cur}
                    if world_trace:
                        s["trace"] = world_trace[:40]
                    self.samples.append(s)


def load_known_findings():
    p = os.path.join(HERE, "known_findings.json")
    if not os.path.exists(p):
        return []
    with open(p) as fh:
        return json.load(fh).get("findings", [])


def match_known(mod, scn, violation, known):
    """-> id of a listed, unrepaired finding that this violation is an instance of, else None"""
    import re

    for k in known:
        if k.get("status") != "known" or k.get("property") != mod.ID:
            continue
        if not re.search(k["signature"], violation.signature()):
            continue
        pred = k.get("predicate")
        if pred:
            fn = getattr(mod, pred, None)
            if fn is None or not fn(scn, violation):
                continue
        return k["id"]
    return None


def exception_origin(exc):
    """'file.py:function' of the innermost frame if - walking outwards from where the exception was raised - a frame
    of the ascmhl package is met before a frame of this framework; None otherwise (then it is our own bug)"""
    tb = exc.__traceback__
    frames = []
    while tb is not None:
        frames.append(tb.tb_frame.f_code)
        tb = tb.tb_next
    for code in reversed(frames):
        fn = code.co_filename
        if os.sep + "mhlverif" + os.sep in fn:
            return None
        if os.sep + "ascmhl" + os.sep in fn and os.sep + "site-packages" + os.sep not in fn:
            return "%s:%s" % (os.path.basename(fn), code.co_name)
    return None


def make_body(mod, ctx, known):
    from .world import Violation

    def body(scn):
        if ctx.harness_error is not None:
            return
        if ctx.deadline is not None and time.time() > ctx.deadline:
            ctx.skipped += 1
            return
        if ctx.shrink_deadline is not None and time.time() > ctx.shrink_deadline:
            return
        ctx.begin(scn)
        trace = None
        try:
            trace = mod.run_case(scn, ctx)
        except Violation as v:
            sig = v.signature()
            if sig in ctx.ignored_sigs:
                return
            kid = match_known(mod, scn, v, known)
            if kid is not None:
                ctx.known[kid] += 1
                return
            if ctx.focus_sig is not None and sig != ctx.focus_sig:
                # while shrinking one root cause do not slide into another one
                ctx.failures.setdefault(sig, {"scenario": scn, "clause": v.clause, "detail": v.detail, "n": 0})
                return
            if ctx.focus_sig is None:
                ctx.focus_sig = sig
                ctx.shrink_deadline = time.time() + (60 if ctx.tier == "quick" else 200)
            rec = ctx.failures.setdefault(sig, {"n": 0})
            rec.update(scenario=scn, clause=v.clause, detail=v.detail)
            rec["n"] += 1
            if v.result is not None:
                rec["result"] = v.result.brief()
                rec["tb"] = v.result.tb
            raise
        except Exception as exc:
            from hypothesis.errors import HypothesisException, UnsatisfiedAssumption

            et = sys.exc_info()[0]
            if issubclass(et, (HypothesisException, UnsatisfiedAssumption)):
                raise
            origin = exception_origin(exc)
            if origin is not None:
                # the exception was raised inside the tool (a library entry point called directly by the check): that is
                # a finding about the tool, not a defect of the harness
                v = Violation("tool-exception", "%s: %s (raised in %s)" % (type(exc).__name__, str(exc)[:300], origin))
                sig = "tool-exception|%s|%s" % (type(exc).__name__, origin)
                v.signature = lambda sig=sig: sig
                if sig in ctx.ignored_sigs:
                    return
                if ctx.focus_sig is not None and sig != ctx.focus_sig:
                    ctx.failures.setdefault(sig, {"scenario": scn, "clause": v.clause, "detail": v.detail, "n": 0})
                    return
                if ctx.focus_sig is None:
                    ctx.focus_sig = sig
                    ctx.shrink_deadline = time.time() + (60 if ctx.tier == "quick" else 200)
                rec = ctx.failures.setdefault(sig, {"n": 0})
                rec.update(scenario=scn, clause=v.clause, detail=v.detail, tb=traceback.format_exc()[-3000:])
                rec["n"] += 1
                raise v
            ctx.harness_error = traceback.format_exc() + "\nscenario: " + json.dumps(scn)[:2000]
            return
        finally:
            ctx.end(trace)

    return body


def run_generated(mod, ctx, known, tier, seed, examples):
    """drive run_case with Hypothesis; collect one failure per signature, shrink each, continue"""
    import hypothesis
    from hypothesis import HealthCheck, Phase, given, settings
    from hypothesis.errors import FailedHealthCheck

    strat = mod.strategy(tier)
    remaining = examples
    rounds = 0
    while remaining > 0 and rounds < 5 and ctx.harness_error is None:
        rounds += 1
        before = ctx.evaluations
        ctx.focus_sig = None
        ctx.shrink_deadline = None
        body = make_body(mod, ctx, known)
        st = settings(
            max_examples=remaining,
            database=None,
            deadline=None,
            report_multiple_bugs=False,
            suppress_health_check=[HealthCheck.too_slow, HealthCheck.data_too_large],
            phases=[Phase.generate, Phase.shrink],
            verbosity=hypothesis.Verbosity.quiet,
        )
        test = hypothesis.seed(seed + 7919 * (rounds - 1))(st(given(strat)(body)))
        try:
            test()
        except FailedHealthCheck as e:
            ctx.harness_error = "Hypothesis health check: %s" % e
            return
        except BaseException as e:  # the recorded failure is what counts
            if ctx.focus_sig is None and ctx.harness_error is None:
                ctx.harness_error = "unexpected exception from Hypothesis: " + "".join(
                    traceback.format_exception(type(e), e, e.__traceback__)
                )
                return
        if ctx.focus_sig is None:
            break
        ctx.ignored_sigs.add(ctx.focus_sig)
        for sig in list(ctx.failures):
            ctx.ignored_sigs.add(sig)
        used = ctx.evaluations - before
        remaining -= max(used, 1)


def shard_worker(arg):
    """one shard; with MHLVERIF_COV=<dir> (a measuring aid, see tools/coverage_report.py) line/branch coverage of the
    ascmhl package under this shard is saved into <dir>"""
    covdir = os.environ.get("MHLVERIF_COV")
    if not covdir:
        return _shard_worker(arg)
    import coverage

    cov = coverage.Coverage(data_file=os.path.join(covdir, "cov.%s.%d.%d" % (arg[0], arg[3], os.getpid())), branch=True, source=[os.path.join(REPO, "ascmhl")])
    cov.start()
    try:
        return _shard_worker(arg)
    finally:
        cov.stop()
        cov.save()


def _shard_worker(arg):
    mod_name, tier, seed, shard, nshards, examples, budget_s = arg
    try:
        mod = importlib.import_module("mhlverif.props." + mod_name)
        ctx = Ctx(mod, tier)
        ctx.deadline = time.time() + budget_s
        known = load_known_findings()
        from .world import Violation

        # enumerated sub-domains (complete inside the tier), sharded round-robin
        enum = getattr(mod, "enumerated", None)
        n_enum = 0
        if enum is not None:
            body = make_body(mod, ctx, known)
            for i, scn in enumerate(enum(tier)):
                if i % nshards != shard:
                    continue
                n_enum += 1
                ctx.focus_sig = None
                ctx.shrink_deadline = None
                try:
                    body(scn)
                except Violation:
                    pass
                except BaseException as e:
                    ctx.harness_error = "".join(traceback.format_exception(type(e), e, e.__traceback__))
                if ctx.harness_error:
                    break
            for sig in list(ctx.failures):
                ctx.ignored_sigs.add(sig)
        if ctx.harness_error is None and examples > 0:
            run_generated(mod, ctx, known, tier, seed * 1000 + shard, examples)
        return {
            "shard": shard,
            "evaluations": ctx.evaluations,
            "enumerated": n_enum,
            "events": dict(ctx.events),
            "nontrivial": sorted(ctx.nontrivial),
            "samples": ctx.samples,
            "known": dict(ctx.known),
            "failures": ctx.failures,
            "harness_error": ctx.harness_error,
            "skipped": ctx.skipped,
            "excluded": dict(ctx.excluded),
        }
    except BaseException as e:
        return {
            "shard": shard,
            "evaluations": 0,
            "enumerated": 0,
            "events": {},
            "nontrivial": [],
            "samples": [],
            "known": {},
            "failures": {},
            "harness_error": "".join(traceback.format_exception(type(e), e, e.__traceback__)),
            "skipped": 0,
            "excluded": {},
        }


def replay_file(mod, path, known):
    """-> (status, info).  status: 'ok' | 'violation' | 'known'"""
    from .world import Violation

    with open(path) as fh:
        doc = json.load(fh)
    scn = doc["scenario"]
    ctx = Ctx(mod, "quick")
    ctx.begin(scn)
    try:
        mod.run_case(scn, ctx)
    except Violation as v:
        kid = match_known(mod, scn, v, known)
        if kid:
            return "known", kid
        return "violation", {"clause": v.clause, "detail": v.detail, "signature": v.signature(),
                             "result": v.result.brief() if v.result else None,
                             "tb": v.result.tb if v.result else None}
    except Exception as exc:
        origin = exception_origin(exc)
        if origin is None:
            raise
        return "violation", {"clause": "tool-exception", "detail": "%s: %s (raised in %s)" % (type(exc).__name__, str(exc)[:300], origin),
                             "signature": "tool-exception|%s|%s" % (type(exc).__name__, origin), "result": None, "tb": traceback.format_exc()[-3000:]}
    return "ok", None


def write_failure(mod_id, sig, rec):
    d = os.path.join(HERE, "failures", mod_id)
    os.makedirs(d, exist_ok=True)
    name = hashlib.sha1(sig.encode()).hexdigest()[:12] + ".json"
    p = os.path.join(d, name)
    with open(p, "w") as fh:
        json.dump(
            {
                "property": mod_id,
                "signature": sig,
                "clause": rec.get("clause"),
                "detail": rec.get("detail"),
                "result": rec.get("result"),
                "traceback": rec.get("tb"),
                "scenario": rec.get("scenario"),
            },
            fh,
            indent=1,
            ensure_ascii=True,
        )
    return p


def main(argv=None):
    ap = argparse.ArgumentParser(prog="check")
    ap.add_argument("property")
    ap.add_argument("--tier", default=os.environ.get("VERIF_TIER") or "quick", choices=["quick", "thorough"])
    ap.add_argument("--replay")
    ap.add_argument("--examples", type=int)
    ap.add_argument("--shards", type=int)
    ap.add_argument("--budget", type=float, help="wall-clock ceiling in seconds (inconclusive beyond, never a violation)")
    args = ap.parse_args(argv)
    t0 = time.time()
    try:
        seed = int(os.environ.get("VERIF_SEED", "1") or "1")
    except ValueError:
        seed = 1
    pid = args.property.upper()
    mod_name = pid.lower()

    try:
        import ascmhl

        real = os.path.realpath(os.path.dirname(ascmhl.__file__))
        if not real.startswith(os.path.realpath(REPO) + os.sep):
            print("HARNESS ERROR: ascmhl imported from %s, expected below %s" % (real, REPO))
            return 2
        mod = importlib.import_module("mhlverif.props." + mod_name)
    except Exception:
        print("HARNESS ERROR: cannot import\n" + traceback.format_exc())
        return 2

    known = load_known_findings()

    if args.replay:
        try:
            status, info = replay_file(mod, args.replay, known)
        except Exception:
            print("HARNESS ERROR: replay failed\n" + traceback.format_exc())
            return 2
        if status == "violation":
            print(json.dumps(info, indent=1)[:6000])
            print("VIOLATION property=%s replay=%s" % (pid, args.replay))
            return 1
        if status == "known":
            print("KNOWN-FINDING: property=%s %s" % (pid, info))
        else:
            print("replay ok: property held on %s" % args.replay)
        return 0

    violations = []  # (sig, path)
    known_seen = collections.Counter()
    evaluations = 0

    # 1. regression tier: committed minimal reproductions
    rdir = os.path.join(HERE, "replay", pid)
    n_replayed = 0
    if os.path.isdir(rdir):
        for fn in sorted(os.listdir(rdir)):
            if not fn.endswith(".json"):
                continue
            p = os.path.join(rdir, fn)
            try:
                status, info = replay_file(mod, p, known)
            except Exception:
                print("HARNESS ERROR: regression replay %s failed\n%s" % (p, traceback.format_exc()))
                return 2
            n_replayed += 1
            evaluations += 1
            if status == "violation":
                print("regression replay failed: %s\n%s" % (p, json.dumps(info, indent=1)[:3000]))
                violations.append((info["signature"], p))
            elif status == "known":
                known_seen[info] += 1

    # 2. generated search
    ex_default, shards_default = mod.BUDGET[args.tier]
    nshards = args.shards or shards_default
    examples = args.examples if args.examples is not None else ex_default
    budget_s = args.budget or float(os.environ.get("MHLVERIF_BUDGET_S", "0") or 0) or (
        240 if args.tier == "quick" else 3000
    )
    per_shard = (examples + nshards - 1) // nshards if examples else 0
    jobs = [(mod_name, args.tier, seed, s, nshards, per_shard, budget_s) for s in range(nshards)]
    if nshards == 1:
        results = [shard_worker(jobs[0])]
    else:
        ctxm = multiprocessing.get_context("fork")
        with ctxm.Pool(min(nshards, os.cpu_count() or 1)) as pool:
            results = pool.map(shard_worker, jobs, chunksize=1)

    events = collections.Counter()
    excluded = collections.Counter()
    nontrivial = set()
    samples = []
    failures = {}
    skipped = 0
    enumerated = 0
    for r in results:
        if r["harness_error"]:
            print("HARNESS ERROR (shard %s):\n%s" % (r["shard"], r["harness_error"]))
            return 2
        evaluations += r["evaluations"]
        enumerated += r["enumerated"]
        events.update(r["events"])
        excluded.update(r["excluded"])
        nontrivial.update(r["nontrivial"])
        known_seen.update(r["known"])
        skipped += r["skipped"]
        for s in r["samples"]:
            if len(samples) < 4:
                samples.append(s)
        for sig, rec in r["failures"].items():
            if sig not in failures or len(json.dumps(rec.get("scenario"))) < len(
                json.dumps(failures[sig].get("scenario"))
            ):
                failures[sig] = rec

    for sig, rec in sorted(failures.items()):
        p = write_failure(pid, sig, rec)
        print("violation: %s\n  %s\n  %s" % (sig, (rec.get("detail") or "")[:1500], rec.get("result") or ""))
        violations.append((sig, p))

    required = getattr(mod, "REQUIRED", [])
    missing = [c for c in required if events.get(c, 0) == 0]
    if missing and args.tier == "thorough" and not skipped:
        print("HARNESS ERROR: required case classes never generated: %s" % missing)
        return 2

    for kid, n in sorted(known_seen.items()):
        desc = next((k.get("what", "") for k in known if k["id"] == kid), "")
        print("KNOWN-FINDING: property=%s %s: %s (%d cases)" % (pid, kid, desc, n))

    wall = time.time() - t0
    if not samples:
        samples = [{"note": "no non-trivial sample captured"}]
    evidence = {
        "property_id": pid,
        "tier": args.tier,
        "seed": seed,
        "level": mod.LEVEL,
        "coverage": {
            "evaluations": evaluations,
            "distinct_nontrivial": len(nontrivial),
            "rule": mod.RULE,
            "samples": samples,
            "classes": dict(sorted(events.items())),
            "regression_replays": n_replayed,
            "enumerated_cases": enumerated,
            "excluded_by_construction": dict(excluded),
            "shards": nshards,
            "skipped_after_budget": skipped,
            "known_findings_seen": dict(known_seen),
            "exhaustive": False,
        },
        "assumptions": getattr(mod, "ASSUMPTIONS", []),
        "wall_s": round(wall, 2),
        "violations": len(violations),
    }
    if os.path.realpath(REPO) == "/repo" and not os.environ.get("MHLVERIF_COV"):
        # evidence describes runs against /repo itself: sensitivity runs against a patched scratch copy (mutants/driver.py,
        # tools/recheck_seeded.py set MHLVERIF_REPO) and coverage-measuring runs leave it alone
        os.makedirs(os.path.join(HERE, "evidence"), exist_ok=True)
        with open(os.path.join(HERE, "evidence", pid + ".json"), "w") as fh:
            json.dump(evidence, fh, indent=1, ensure_ascii=True)
            fh.write("\n")
    print(
        "%s %s seed=%d: %d evaluations, %d distinct non-trivial, %d violations, %.1fs%s"
        % (pid, args.tier, seed, evaluations, len(nontrivial), len(violations), wall,
           " (budget hit: %d cases skipped, inconclusive for those)" % skipped if skipped else "")
    )
    top = ", ".join("%s=%d" % kv for kv in sorted(events.items())[:40])
    if top:
        print("classes: " + top)
    if violations:
        for sig, p in violations:
            print("VIOLATION property=%s replay=%s" % (pid, p))
        return 1
    return 0


if __name__ == "__main__":
    sys.exit(main())

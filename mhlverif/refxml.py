"""Independent readers for manifests and chain files (stdlib xml.etree on expat; the tool itself reads with
lxml/libxml2 iterparse) and XSD validators built from the schemas shipped in the repository."""
import os
import xml.etree.ElementTree as ET

NS = "{urn:ASC:MHL:v2.0}"
DNS = "{urn:ASC:MHL:DIRECTORY:v2.0}"
FORMATS = ("c4", "md5", "sha1", "xxh128", "xxh3", "xxh64")


def _strip(tag):
    return tag.split("}", 1)[-1]


def read_manifest(path_or_bytes):
    """-> dict with keys creatorinfo, process, roothash, patterns, records (list), references (list).
    record: {kind:'file'|'dir', path, size, lastmod, previous, entries:[{fmt,digest,action,hashdate,structure}]}"""
    if isinstance(path_or_bytes, bytes):
        root = ET.fromstring(path_or_bytes)
    else:
        with open(path_or_bytes, "rb") as fh:
            root = ET.fromstring(fh.read())
    if root.tag != NS + "hashlist":
        raise ValueError("root element is %r" % root.tag)
    out = {
        "version": root.attrib.get("version"),
        "creatorinfo": {},
        "process": None,
        "roothash": None,
        "patterns": [],
        "has_ignore": False,
        "records": [],
        "references": [],
        "has_hashes": False,
        "has_references": False,
    }
    ci = root.find(NS + "creatorinfo")
    if ci is not None:
        info = {"authors": []}
        for ch in ci:
            t = _strip(ch.tag)
            if t == "author":
                info["authors"].append(
                    {
                        "name": ch.text,
                        "email": ch.attrib.get("email"),
                        "phone": ch.attrib.get("phone"),
                        "role": ch.attrib.get("role"),
                    }
                )
            elif t == "tool":
                info["tool"] = ch.text
                info["toolversion"] = ch.attrib.get("version")
            else:
                info[t] = ch.text
        out["creatorinfo"] = info
    pi = root.find(NS + "processinfo")
    if pi is not None:
        p = pi.find(NS + "process")
        out["process"] = p.text if p is not None else None
        rh = pi.find(NS + "roothash")
        if rh is not None:
            out["roothash"] = _dir_entries(rh)
        ig = pi.find(NS + "ignore")
        if ig is not None:
            out["has_ignore"] = True
            out["patterns"] = [e.text for e in ig.findall(NS + "pattern")]
    hs = root.find(NS + "hashes")
    if hs is not None:
        out["has_hashes"] = True
        for el in hs:
            t = _strip(el.tag)
            pe = el.find(NS + "path")
            rec = {
                "kind": "file" if t == "hash" else "dir",
                "path": pe.text if pe is not None else None,
                "size": pe.attrib.get("size") if pe is not None else None,
                "lastmod": pe.attrib.get("lastmodificationdate") if pe is not None else None,
                "previous": None,
                "entries": [],
            }
            pp = el.find(NS + "previousPath")
            if pp is not None:
                rec["previous"] = pp.text
            if t == "hash":
                for ch in el:
                    ct = _strip(ch.tag)
                    if ct in FORMATS:
                        rec["entries"].append(
                            {
                                "fmt": ct,
                                "digest": ch.text,
                                "action": ch.attrib.get("action"),
                                "hashdate": ch.attrib.get("hashdate"),
                                "structure": None,
                            }
                        )
            elif t == "directoryhash":
                rec["entries"] = _dir_entries(el)
            else:
                raise ValueError("unexpected element in <hashes>: %r" % el.tag)
            out["records"].append(rec)
    rf = root.find(NS + "references")
    if rf is not None:
        out["has_references"] = True
        for el in rf.findall(NS + "hashlistreference"):
            pe = el.find(NS + "path")
            ce = el.find(NS + "c4")
            out["references"].append(
                {"path": pe.text if pe is not None else None, "c4": ce.text if ce is not None else None}
            )
    return out


def _dir_entries(el):
    content = el.find(NS + "content")
    structure = el.find(NS + "structure")
    entries = []
    smap = {}
    if structure is not None:
        for ch in structure:
            smap[_strip(ch.tag)] = ch.text
    if content is not None:
        for ch in content:
            f = _strip(ch.tag)
            entries.append(
                {
                    "fmt": f,
                    "digest": ch.text,
                    "action": ch.attrib.get("action"),
                    "hashdate": ch.attrib.get("hashdate"),
                    "structure": smap.get(f),
                }
            )
    extra = set(smap) - {e["fmt"] for e in entries}
    for f in sorted(extra):
        entries.append({"fmt": f, "digest": None, "action": None, "hashdate": None, "structure": smap[f]})
    return entries


def read_chain(path_or_bytes):
    """-> list of {seq, path, fmt, digest} in document order"""
    if isinstance(path_or_bytes, bytes):
        root = ET.fromstring(path_or_bytes)
    else:
        with open(path_or_bytes, "rb") as fh:
            root = ET.fromstring(fh.read())
    if root.tag != DNS + "ascmhldirectory":
        raise ValueError("root element is %r" % root.tag)
    out = []
    for el in root.findall(DNS + "hashlist"):
        pe = el.find(DNS + "path")
        ent = {"seq": el.attrib.get("sequencenr"), "path": pe.text if pe is not None else None, "fmt": None, "digest": None}
        for ch in el:
            t = _strip(ch.tag)
            if t in FORMATS:
                ent["fmt"] = t
                ent["digest"] = ch.text
        out.append(ent)
    return out


_schemas = {}


def _schema(kind, repo):
    key = (kind, repo)
    if key not in _schemas:
        from lxml import etree

        name = "ASCMHL.xsd" if kind == "manifest" else "ASCMHLDirectory__combined.xsd"
        _schemas[key] = etree.XMLSchema(etree.parse(os.path.join(repo, "xsd", name)))
    return _schemas[key]


def xsd_validate(path, kind, repo):
    """kind: 'manifest' | 'directory'.  -> (ok, message)"""
    from lxml import etree

    schema = _schema(kind, repo)
    try:
        with open(path, "rb") as fh:
            doc = etree.parse(fh)
    except etree.XMLSyntaxError as e:
        return False, "not well-formed: %s" % e
    ok = schema.validate(doc)
    return ok, ("" if ok else str(schema.error_log.last_error))

"""C20 - the background update check can never change or stall a command.

Domain   server script = (release point, outcome).  Outcome: JSON with tag_name from a version-string strategy (newer,
         equal, older, v-prefixed, pre-release, dev, post, epoch, garbage, empty, non-string), JSON without tag_name,
         JSON list / number, body that is not JSON, HTTP 4xx/5xx, ConnectionError, Timeout, SSLError, other
         RequestException, a non-requests exception.  Release point (owned by the harness, this is what enumerates
         the interleavings of checker thread, command and final join): at thread start, inside the command body
         (when it loads the history), when the final join starts, 0.3 s / 0.9 s into the join, 1.5 s (after the join
         timed out), never.  Command: invocations of both CLI groups with exit codes 0, 10, 11, 21, 30 and 2.
         A few cases run the real entry point in a subprocess (interpreter shutdown with a hung daemon thread).
         Later additions: release tags with 1-5 components; every command of both groups against a server that never answers.
Oracle   reference run = same command on the same world state with a stub that fails immediately.  Exit code equal;
         stdout equal, or equal plus exactly the one notice line at the very end and only if the scripted version is
         a newer final release that arrived before the join timed out; no exception escapes into the command; extra
         wall time <= 1.0 s + 0.75 s slack; a run still going after 10 s is a stall (watchdog).
"""
import json
import os
import shutil
import subprocess
import sys
import threading
import time
from unittest import mock

from hypothesis import strategies as st
from packaging import version as pkgversion

from ..world import Violation, World, require

ID = "C20"
LEVEL = "fault_enumeration"
RULE = (
    "generated: (release point in 7 classes, server outcome in ~20 classes with generated version strings, command in 14 "
    "invocations over 4 world states); oracle = differential against a run whose update check fails at once. "
    "non-trivial = release point other than 'at thread start' or an outcome other than a clean newer/older version; "
    "distinct by canonical scenario hash."
)
ASSUMPTIONS = [
    "interleavings are enumerated at the synchronisation points the harness owns (thread start, history load, join start, timed releases); preemption inside needs_update is not enumerated",
    "'about one second' is judged with 0.75 s slack (the only wall-clock oracle; the stall watchdog has a 10x margin)",
]
BUDGET = {"quick": (90, 4), "thorough": (4000, 16)}
REQUIRED = ["release_never", "release_in_command", "release_at_join", "release_after_timeout", "notice_printed", "garbage_version", "http_error", "connection_error", "exit_nonzero", "subprocess", "verbose_command", "slow_command", "request_sequence"]

_CFG = os.path.join(os.environ.get("MHLVERIF_SCRATCH") or ("/dev/shm" if os.path.isdir("/dev/shm") else "/tmp"), "mhlverif.cfg.%d" % os.getpid())
os.environ["XDG_CONFIG_HOME"] = _CFG  # (click.get_app_dir and friends)
os.environ["XDG_CACHE_HOME"] = _CFG
import atexit

atexit.register(lambda: shutil.rmtree(_CFG, ignore_errors=True))

# what each command itself exits with in each world state (independent of any update check)
EXPECTED_EXIT = {
    "info": {"*": 0}, "info_nohist": {"*": 30}, "info_sf": {"*": 0}, "info_verbose": {"*": 0},
    "diff": {"clean": 0, "altered": 0, "missing": 10, "newfile": 21}, "diff_verbose": {"clean": 0, "altered": 0, "missing": 10, "newfile": 21},
    "create": {"clean": 0, "altered": 11, "missing": 10, "newfile": 0}, "create_v": {"clean": 0, "altered": 11, "missing": 10, "newfile": 0},
    "create_verbose": {"clean": 0, "altered": 11, "missing": 10, "newfile": 0},
    "flatten": {"*": 0}, "flatten_verbose": {"*": 0}, "usage_main": {"*": 2}, "missing_arg": {"*": 2}, "usage_debug": {"*": 2},
    "verify": {"clean": 0, "altered": 11, "missing": 10, "newfile": 21}, "verify_verbose": {"clean": 0, "altered": 11, "missing": 10, "newfile": 21},
    "verify_dh": {"clean": 0, "altered": 12, "missing": 12, "newfile": 12}, "hash": {"*": 0}, "xsd": {"*": 0},
}

NOTICE = "Please update to the latest ascmhl version using `pip3 install -U ascmhl`."
RELEASES = ["start", "in_command", "at_join", "join+0.3", "join+0.9", "join+1.5", "never"]
COMMANDS = ["info", "info_nohist", "diff", "create", "flatten", "usage_main", "missing_arg", "verify", "hash", "xsd", "usage_debug", "create_v", "info_sf", "verify_dh",
            "info_verbose", "diff_verbose", "verify_verbose", "create_verbose", "flatten_verbose"]
STATES = ["clean", "altered", "missing", "newfile"]

_versions = st.one_of(
    st.sampled_from(["2026092715300000000012345-g1a2b3c", "1" * 26 + "-x", "v" + "9" * 24 + "_", "20260927153000000000123456789!", "1." * 30 + "x"]),
    st.sampled_from(["99.0", "v99.1.2", "1.0", "0.1", "0.0.1", "v0.0.9", "2.0rc1", "3.0.dev2", "1.0.post1", "1!0.1", "99.0a1", "v1.2.3-beta", "", "latest", "1.0.0.0.0", "١٢", "1.0+local", "99.0.0-rc.1", " 9.9 "]),
    st.builds(lambda a, b, c: "%d.%d.%d" % (a, b, c), st.integers(0, 50), st.integers(0, 20), st.integers(0, 20)),
    # any number of release components (one: "99", five: "99.0.1.2.3"), with and without the v prefix
    st.builds(lambda v, parts: v + ".".join(str(x) for x in parts), st.sampled_from(["", "v"]), st.lists(st.sampled_from([0, 1, 2, 9, 99, 2026]), min_size=1, max_size=5)),
    st.text(max_size=8),
)
_outcomes = st.one_of(
    st.fixed_dictionaries({"kind": st.just("tag"), "tag": _versions}),
    st.fixed_dictionaries({"kind": st.just("tag"), "tag": _versions}),
    st.fixed_dictionaries({"kind": st.just("tag_nonstring"), "tag": st.sampled_from([None, 123, 1.5, ["1.0"], {"v": 1}])}),
    st.fixed_dictionaries({"kind": st.sampled_from(["no_tag", "json_list", "json_number", "not_json"])}),
    st.fixed_dictionaries({"kind": st.just("http"), "status": st.sampled_from([403, 404, 429, 500, 503])}),
    st.fixed_dictionaries({"kind": st.sampled_from(["ConnectionError", "Timeout", "SSLError", "RequestException", "TooManyRedirects", "OSError", "ValueError"])}),
    # one behaviour per successive request (a checker that retries meets the next one)
    st.fixed_dictionaries({"kind": st.just("seq"), "seq": st.lists(st.sampled_from(["Timeout", "ConnectionError", "http503", "hang", "hang", "newer", "late_newer"]), min_size=2, max_size=4)}),
)


def strategy(tier):
    return st.fixed_dictionaries({"release": st.sampled_from(RELEASES), "outcome": _outcomes, "command": st.sampled_from(COMMANDS), "state": st.sampled_from(STATES),
                                  # the command body itself takes this long (a slow medium); 0 = as fast as it is
                                  "slow": st.sampled_from([0, 0, 0, 0, 0, 1.3])})


def enumerated(tier):
    # the real entry points in a subprocess: interpreter shutdown while the checker hangs / answers late / answers newer
    for rel in ("never", "start", "join+1.5"):
        for cmd in ("info", "verify"):
            yield {"release": rel, "outcome": {"kind": "tag", "tag": "99.0"}, "command": cmd, "state": "clean", "subprocess": True}
    # version classes that must (or must not) trigger the notice, answered in time
    for tag in ("99", "v99", "0", "99.1.2.3", "v99.0.0.0.1", "99.0", "v99.1", "99.0.post1", "99.0a1", "99.0rc1", "99.0b2", "99.0.dev1", "0.0.1", "99.0.0-rc.1", "1!0.0.1", "2026092715300000000012345-g1a2b3c"):
        for rel in ("start", "at_join"):
            yield {"release": rel, "outcome": {"kind": "tag", "tag": tag}, "command": "info", "state": "clean"}
    for seq in (["Timeout", "hang"], ["Timeout", "Timeout", "hang"], ["Timeout", "late_newer"], ["ConnectionError", "ConnectionError", "ConnectionError", "newer"], ["http503", "hang"]):
        for rel in ("start", "at_join"):
            yield {"release": rel, "outcome": {"kind": "seq", "seq": seq}, "command": "info", "state": "clean"}
    # several fast failures in a row, then ordinary commands (anything the checker remembers between runs shows here)
    for i in range(5):
        yield {"release": "start", "outcome": {"kind": "ConnectionError"}, "command": ["info", "verify", "hash", "diff", "create"][i], "state": "clean"}
    for rel in ("never", "join+1.5", "join+0.9", "at_join"):
        for cmd in ("info", "verify", "create"):
            yield {"release": rel, "outcome": {"kind": "tag", "tag": "99.0"}, "command": cmd, "state": "clean", "slow": 1.3}
    for cmd in ("info_verbose", "verify_verbose"):
        for kind in ("ConnectionError", "http"):
            for rel in ("in_command", "at_join", "join+0.3"):
                yield {"release": rel, "outcome": {"kind": kind, "status": 503}, "command": cmd, "state": "clean"}
    # every command of both groups against a server that never answers (the grace period is per command group)
    for cmd in COMMANDS:
        yield {"release": "never", "outcome": {"kind": "tag", "tag": "99.0"}, "command": cmd, "state": "clean"}
    if tier == "thorough":
        for rel in RELEASES:
            for kind in ("ConnectionError", "not_json", "no_tag"):
                yield {"release": rel, "outcome": {"kind": kind}, "command": "info", "state": "clean"}
            for cmd in COMMANDS:
                yield {"release": rel, "outcome": {"kind": "tag", "tag": "99.0"}, "command": cmd, "state": "altered"}


class _Resp:
    def __init__(self, status, body):
        self.status_code = status
        self._body = body

    def raise_for_status(self):
        if self.status_code >= 400:
            import requests

            raise requests.exceptions.HTTPError("%d" % self.status_code)

    def json(self):
        if self._body is _NOTJSON:
            import requests

            raise requests.exceptions.JSONDecodeError("Expecting value", "<html>", 0)
        return self._body


_NOTJSON = object()


def make_stub(outcome, gate):
    import requests

    calls = {"n": 0}
    forever = threading.Event()
    gate.hang_events = getattr(gate, "hang_events", []) + [forever]

    def get(url, *a, **kw):
        gate.wait()
        k = outcome["kind"]
        if k == "seq":
            i = min(calls["n"], len(outcome["seq"]) - 1)
            calls["n"] += 1
            step = outcome["seq"][i]
            if step == "hang":
                forever.wait(30)
                raise requests.exceptions.ConnectionError("released at teardown")
            if step == "late_newer":
                time.sleep(1.9)
                return _Resp(200, {"tag_name": "99.0"})
            if step == "newer":
                return _Resp(200, {"tag_name": "99.0"})
            if step == "http503":
                return _Resp(503, {"message": "unavailable"})
            raise getattr(requests.exceptions, step)("scripted")
        if k in ("tag", "tag_nonstring"):
            return _Resp(200, {"tag_name": outcome["tag"], "name": "release"})
        if k == "no_tag":
            return _Resp(200, {"message": "Not Found"})
        if k == "json_list":
            return _Resp(200, [])
        if k == "json_number":
            return _Resp(200, 7)
        if k == "not_json":
            return _Resp(200, _NOTJSON)
        if k == "http":
            return _Resp(outcome["status"], {"message": "error"})
        if k in ("OSError", "ValueError"):
            raise {"OSError": OSError, "ValueError": ValueError}[k]("scripted")
        raise getattr(requests.exceptions, k)("scripted")

    return get


def is_newer_final(tag):
    from ascmhl.__version__ import ascmhl_tool_version

    try:
        v = pkgversion.parse(tag)
    except Exception:
        return False
    return v > pkgversion.parse(ascmhl_tool_version) and not v.is_devrelease and not v.is_prerelease


def _import_cli():
    """import the CLI modules without letting their import-time Updater touch the network"""
    import requests

    def fail(*a, **kw):
        raise requests.exceptions.ConnectionError("no network in the harness")

    if "ascmhl.cli.ascmhl" not in sys.modules:
        with mock.patch.object(requests, "get", fail):
            import ascmhl.cli.ascmhl
            import ascmhl.cli.ascmhl_debug

            for u in (ascmhl.cli.ascmhl.updater, ascmhl.cli.ascmhl_debug.updater):
                try:
                    u.join(2)
                except RuntimeError:
                    pass  # (an import-time checker whose thread was never started)
    import ascmhl.cli.ascmhl
    import ascmhl.cli.ascmhl_debug

    return ascmhl.cli.ascmhl, ascmhl.cli.ascmhl_debug


def build_world(w, state):
    w.build("R", {"a.txt": "alpha", "sub": {"b.bin": ["00ff", 2000], "c c.txt": "gamma"}})
    w.mkdir("nohist")
    w.put("nohist/x.txt", "x")
    res = w.create("R", ["md5"])
    assert res.exit_code == 0, res.brief()
    if state == "altered":
        w.put("R/sub/b.bin", "changed")
    elif state == "missing":
        w.rm("R/sub/c c.txt")
    elif state == "newfile":
        w.put("R/new.txt", "new")


def argv_for(w, cmd, repo):
    m = w.manifests("R")[0][1]
    table = {
        "info": ("main", ["info", w.abs("R")]),
        "info_nohist": ("main", ["info", w.abs("nohist")]),
        "info_sf": ("main", ["info", "-sf", w.abs("R/a.txt")]),
        "diff": ("main", ["diff", w.abs("R")]),
        "create": ("main", ["create", w.abs("R"), "-h", "md5"]),
        "create_v": ("main", ["create", w.abs("R"), "-h", "xxh64", "-n"]),
        "flatten": ("main", ["flatten", w.abs("R"), w.abs("flat")]),
        "usage_main": ("main", ["frobnicate"]),
        "missing_arg": ("main", ["create"]),
        "verify": ("debug", ["verify", w.abs("R")]),
        "verify_dh": ("debug", ["verify", "-dh", w.abs("R")]),
        "hash": ("debug", ["hash", w.abs("R/a.txt"), "-h", "md5"]),
        "xsd": ("debug", ["xsd-schema-check", w.abs(m), "-xsd", os.path.join(repo, "xsd", "ASCMHL.xsd")]),
        "usage_debug": ("debug", ["verify", "--nope"]),
        "info_verbose": ("main", ["info", "-v", w.abs("R")]),
        "diff_verbose": ("main", ["diff", "-v", w.abs("R")]),
        "verify_verbose": ("debug", ["verify", "-v", w.abs("R")]),
        "create_verbose": ("main", ["create", "-v", w.abs("R"), "-h", "md5"]),
        "flatten_verbose": ("main", ["flatten", "-v", w.abs("R"), w.abs("flat")]),
    }
    return table[cmd]


def invoke(group_mod, group, argv, outcome, release, watchdog=10.0, slow=0):
    """run one CLI invocation with a scripted update server; returns (exit, stdout, stderr, exc, seconds, stalled, thread_errors)"""
    import requests
    from click.testing import CliRunner

    from ascmhl.cli.update import Updater
    from ascmhl.history import MHLHistory

    gate = threading.Event()
    join_started = threading.Event()
    timers = []

    class Instrumented(Updater):
        def join(self, timeout=None):
            join_started.set()
            return super().join(timeout)

    def release_after_join(delay):
        def run():
            join_started.wait(15)
            time.sleep(delay)
            gate.set()

        t = threading.Thread(target=run, daemon=True)
        t.start()
        timers.append(t)

    real_load = MHLHistory.load_from_path.__func__

    def load_and_release(cls, root_path):
        if release == "in_command":
            gate.set()
        if slow:
            time.sleep(slow)
        return real_load(cls, root_path)

    if release == "start":
        gate.set()
    elif release == "at_join":
        release_after_join(0.0)
    elif release.startswith("join+"):
        release_after_join(float(release[5:]))
    errors = []
    old_hook = threading.excepthook
    threading.excepthook = lambda a: errors.append(repr(a.exc_value))
    out = {}
    try:
        with mock.patch.object(requests, "get", make_stub(outcome, gate)), mock.patch.object(MHLHistory, "load_from_path", classmethod(load_and_release)):
            upd = Instrumented()
            with mock.patch.object(group_mod, "updater", upd):

                def work():
                    t0 = time.perf_counter()
                    r = CliRunner(mix_stderr=False).invoke(group, argv, catch_exceptions=True)
                    out["t"] = time.perf_counter() - t0
                    out["r"] = r

                th = threading.Thread(target=work, daemon=True)
                th.start()
                th.join(watchdog)
                stalled = th.is_alive()
                gate.set()  # let everything finish
                for ev in getattr(gate, "hang_events", []):
                    ev.set()
                th.join(15)
                try:
                    upd.join(5)
                except RuntimeError:
                    pass  # (a checker whose thread was never started)
    finally:
        gate.set()
        for ev in getattr(gate, "hang_events", []):
            ev.set()
        threading.excepthook = old_hook
    if "r" not in out:
        return None, "", "", None, watchdog, True, errors
    r = out["r"]
    exc = r.exception if (r.exception is not None and not isinstance(r.exception, SystemExit)) else None
    try:
        err = r.stderr
    except ValueError:
        err = ""
    return r.exit_code, r.stdout, err, exc, out["t"], stalled, errors


def run_subprocess(w, scn, ctx):
    cmd = scn["command"]
    prog = r"""
import sys, os, threading, time
import requests
mode = os.environ["MHLVERIF_RELEASE"]
gate = threading.Event()
class R:
    status_code = 200
    def raise_for_status(self): pass
    def json(self): return {"tag_name": "99.0"}
def get(*a, **kw):
    if mode == "fail": raise requests.exceptions.ConnectionError("x")
    if mode == "never": gate.wait()
    elif mode == "join+1.5": time.sleep(2.5)
    return R()
requests.get = get
sys.argv = ["ascmhl"] + sys.argv[1:]
if os.environ["MHLVERIF_GROUP"] == "main":
    from ascmhl.cli.ascmhl import mhltool_cli as cli
else:
    from ascmhl.cli.ascmhl_debug import mhldebugtool_cli as cli
cli()
"""
    grp, argv = argv_for(w, cmd, ctx.repo)
    env = dict(os.environ, MHLVERIF_GROUP=grp)
    res = {}
    for mode in ("fail", scn["release"]):
        env["MHLVERIF_RELEASE"] = mode
        t0 = time.perf_counter()
        try:
            p = subprocess.run([sys.executable, "-c", prog] + argv, env=env, stdout=subprocess.PIPE, stderr=subprocess.PIPE, timeout=20)
            res[mode] = (p.returncode, p.stdout.decode("utf-8", "replace"), time.perf_counter() - t0)
        except subprocess.TimeoutExpired:
            raise Violation("stall", "subprocess `%s %s` with release=%s did not terminate within 20 s" % (grp, argv[0], mode))
    ref, got = res["fail"], res[scn["release"]]
    require(got[0] == ref[0], "exit-code", "subprocess exit %s, reference %s (release %s)" % (got[0], ref[0], scn["release"]))
    require(got[1] == ref[1] or got[1] == ref[1] + NOTICE + "\n", "stdout", "subprocess stdout %r, reference %r" % (got[1][-200:], ref[1][-200:]))
    require(got[2] - ref[2] <= 1.75, "delay", "subprocess took %.2f s, reference %.2f s (release %s)" % (got[2], ref[2], scn["release"]))
    ctx.event("subprocess")
    if got[1] != ref[1]:
        ctx.event("notice_printed")


def run_case(scn, ctx):
    main_mod, debug_mod = _import_cli()
    with World("c20") as w:
        build_world(w, scn["state"])
        if scn.get("subprocess"):
            run_subprocess(w, scn, ctx)
            ctx.mark_nontrivial()
            return w.trace
        grp, argv = argv_for(w, scn["command"], ctx.repo)
        mod, group = (main_mod, main_mod.mhltool_cli) if grp == "main" else (debug_mod, debug_mod.mhldebugtool_cli)
        pristine = w.abs("_pristine")
        shutil.copytree(w.abs("R"), pristine)
        slow = scn.get("slow", 0)
        ref = invoke(mod, group, argv, {"kind": "ConnectionError"}, "start", slow=slow)
        shutil.rmtree(w.abs("R"))
        shutil.copytree(pristine, w.abs("R"))
        shutil.rmtree(w.abs("flat"), ignore_errors=True)
        got = invoke(mod, group, argv, scn["outcome"], scn["release"], slow=slow)
        if slow and ref[4] > 1.0:
            ctx.event("slow_command")
        label = "%s %s, release=%s, outcome=%s" % (grp, argv[0], scn["release"], json.dumps(scn["outcome"]))
        require(ref[3] is None and not ref[5], "command-itself", "with an update check that fails at once the command misbehaves: exit %s, exception %r" % (ref[0], ref[3]))
        exp = EXPECTED_EXIT.get(scn["command"], {})
        exp = exp.get(scn["state"], exp.get("*"))
        require(exp is None or ref[0] == exp, "command-itself", "%s %s in state %s exits %s with an update check that fails at once; the command's own exit code is %s\n%s" % (grp, argv[0], scn["state"], ref[0], exp, (ref[1] + ref[2])[-300:]))
        require(not got[5], "stall", "%s: still running after 10 s" % label)
        require(got[3] is None, "exception-escapes", "%s: exception reached the command: %r" % (label, got[3]))
        require(got[0] == ref[0], "exit-code", "%s: exit %s, the command's own exit code is %s" % (label, got[0], ref[0]))
        import re as _re

        # (verbose create / flatten print the new manifest's name, which carries the time of the run)
        strip = lambda s: _re.sub(r"\d{4}-\d{2}-\d{2}_\d{6}Z", "<TIME>", s.replace(w.base, "$W"))
        got = (got[0], strip(got[1])) + tuple(got[2:])
        ref = (ref[0], strip(ref[1])) + tuple(ref[2:])
        if "verbose" in scn["command"]:
            ctx.event("verbose_command")
        if got[1] != ref[1]:
            tag = scn["outcome"].get("tag") if scn["outcome"]["kind"] == "tag" else None
            if scn["outcome"]["kind"] == "seq" and any(x in ("newer", "late_newer") for x in scn["outcome"]["seq"]):
                tag = "99.0"  # (some request of the scripted sequence is answered with a newer final release)
            ok = got[1] == ref[1] + NOTICE + "\n"
            require(ok, "stdout", "%s: stdout %r, the command's own output is %r" % (label, strip(got[1])[-300:], strip(ref[1])[-300:]))
            require(isinstance(tag, str) and is_newer_final(tag), "false-notice", "%s: update notice printed for version %r which is not a newer final release" % (label, tag))
            require(scn["release"] not in ("join+1.5", "never"), "false-notice", "%s: notice although the answer arrived after the join timed out" % label)
            ctx.event("notice_printed")
        require(got[4] - ref[4] <= 1.75, "delay", "%s: took %.2f s, without update check %.2f s" % (label, got[4], ref[4]))
        ctx.event("release_" + {"join+1.5": "after_timeout", "join+0.3": "during_join", "join+0.9": "during_join"}.get(scn["release"], scn["release"]))
        k = scn["outcome"]["kind"]
        if k == "seq":
            ctx.event("request_sequence")
        if k == "tag" and not _parses(scn["outcome"]["tag"]):
            ctx.event("garbage_version")
        if k == "http":
            ctx.event("http_error")
        if k in ("ConnectionError", "Timeout", "SSLError"):
            ctx.event("connection_error")
        if ref[0] != 0:
            ctx.event("exit_nonzero")
        ctx.event("exit_%s" % ref[0])
        clean = k == "tag" and _parses(scn["outcome"]["tag"])
        ctx.mark_nontrivial(scn["release"] != "start" or not clean)
        return w.trace + [["cli", grp] + [a.replace(w.base, "$W") for a in argv] + ["=> %s in %.2fs (ref %.2fs)" % (got[0], got[4], ref[4])]]


def _parses(tag):
    try:
        pkgversion.parse(tag)
        return True
    except Exception:
        return False

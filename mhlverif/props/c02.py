"""C02 - a sealed generation records exactly the tree that is on disk.

Domain   generated trees (depth <= 5, empty files and directories, names with spaces, non-ASCII and XML-special
         characters), generated prior histories (none, single, multi-generation, nested at any directory, created
         in any order), tree edits in between, and every `create` of the history observed: folder mode with any
         format list and -n, or -sf with 1-3 files/folders inside the root.
         Later additions: -sf selections that overlap or name the root itself, relative and non-normalised -sf spellings,
         names starting with two dots or holding a backslash directly in a history root, files recorded in 2-3 formats,
         altered and sealed again (every requested, already recorded format must be on the failed record).
Oracle   the harness's own model of the tree (it wrote every byte) gives the expected record set; the manifests
         written by the observed run (after-snapshot minus before-snapshot of all ascmhl folders) are read with the
         independent XML reader; union of records resolved against each manifest's own history root must equal
         the expected set exactly, no duplicates, relative POSIX paths that equal relpath(entry, deepest history
         root), requested formats all present and every recorded digest equal to hashlib/xxhash of the bytes.
"""
import os
import posixpath

from hypothesis import strategies as st

from .. import gen, hist, refhash
from ..world import World, require

ID = "C02"
LEVEL = "exploration"
RULE = (
    "generated: tree + history of 1-8 steps (create / create -sf at any directory, put, overwrite, rm, rmtree, mkdir, "
    "mv); every create is observed: record set of the newly written manifests == model's non-ignored entries "
    "(folder mode) or == named files / files beneath named folders (-sf), digests == reference. non-trivial = "
    "observed tree has >= 1 sub-directory and >= 3 files and one of: empty file, empty directory, non-ASCII or "
    "XML-special name, nested history, prior generation, -sf folder; distinct by canonical scenario hash."
)
ASSUMPTIONS = [
    "history-based cases use the default ignore patterns only; a separate family seals flat trees with literal user patterns (-i / -ii, names with blanks); globs, directory patterns and accumulation are C12's domain",
    "regular files and directories only; names without control characters, U+2028/2029 excluded here (C10 covers them)",
]
BUDGET = {"quick": (240, 4), "thorough": (72000, 16)}
REQUIRED = ["nested", "prior_generation", "sf", "sf_folder", "empty_file", "empty_dir", "special_name", "-n", "prefix_sibling", "big_file", "user_patterns_-ii", "pattern_with_blank", "failed_record_formats", "sf_names_root"]

CFG = {
    "kinds": ["create"] * 4 + ["create_sf"] * 2 + ["put_new", "put_new", "overwrite", "rm", "rmtree", "mkdir", "mv"],
    "min_steps": 1,
    "max_steps": 8,
    "final": ["create"],
    "flags": {"-n": 0.2, "-v": 0.1},
    "sf_overlap": True,  # selections that reach a file twice (a folder and something in it) ...
    "sf_root": True,  # ... or that name the history root itself
}


@st.composite
def _scn(draw):
    scn = draw(st.one_of(hist.scenarios_deep(CFG), hist.scenarios_deep(dict(CFG, final=["create_sf"]))))
    extra = draw(st.sampled_from([None, None, None, "prefix", "prefix", "big", "twins", "deep_sf", "altered_multi", "dotdot_top"]))
    if extra == "prefix":
        # a nested history whose folder name is a prefix of a sibling folder / file that has no history of its own
        base = draw(st.sampled_from(["Clips", "s", "A", "Reel1"]))
        sib = draw(st.sampled_from(["_proxy", "2", "0", ".txt", " b"]))
        if not ({base, base + sib} & hist.top_names_used(scn)):
            scn["tree"][base] = {"in.mov": "inside " + base}
            scn["tree"][base + sib] = {"next.mov": "beside"} if draw(st.booleans()) else "a file beside"
            scn["steps"] = [{"op": "create", "root": base, "formats": draw(gen.formats(2)), "flags": []}] + scn["steps"]
    elif extra == "twins":
        # two nested histories holding a file with the same history-relative path, both named in one -sf run
        if not ({"A001", "B001"} & hist.top_names_used(scn)):
            scn["tree"]["A001"] = {"Clips": {"clip001.mov": "card A"}}
            scn["tree"]["B001"] = {"Clips": {"clip001.mov": "card B"}}
            pre = [{"op": "create", "root": r, "formats": ["md5"], "flags": []} for r in draw(st.permutations(["A001", "B001"]))]
            sel = draw(st.sampled_from([["A001/Clips/clip001.mov", "B001/Clips/clip001.mov"], ["B001", "A001"], ["A001/Clips", "B001/Clips/clip001.mov"]]))
            scn["steps"] = pre + scn["steps"] + [{"op": "create_sf", "root": "", "formats": draw(gen.formats(2)), "flags": [], "sf": sel}]
    elif extra == "deep_sf":
        # -sf naming a folder with several levels below it (optionally with a nested history inside)
        if "dsf" not in hist.top_names_used(scn):
            scn["tree"]["dsf"] = {"l1": {"l2": {"l3": {"deep.mov": "d3"}, "mid.mov": "d2"}, "up.mov": "d1"}, "top.mov": "d0"}
            pre = [{"op": "create", "root": "dsf/l1/l2", "formats": ["md5"], "flags": []}] if draw(st.booleans()) else []
            scn["steps"] = pre + scn["steps"] + [{"op": "create_sf", "root": "", "formats": draw(gen.formats(2)), "flags": [], "sf": [draw(st.sampled_from(["dsf", "dsf/l1", "dsf"]))]}]
    elif extra == "dotdot_top":
        # files directly in a history root (the outer one and a nested one) whose names begin with two dots, and a
        # backslash in a name (an ordinary character here)
        if not ({"..metadata", "...", "dd"} & hist.top_names_used(scn)):
            scn["tree"]["..metadata"] = "not a parent reference"
            scn["tree"]["..."] = "three dots"
            scn["tree"]["dd"] = {"..sync state": "in a nested root", "take\\1.bin": "backslash", "x": {"..deeper": "fine anyway"}}
            pre = [{"op": "create", "root": "dd", "formats": ["md5"], "flags": []}] if draw(st.booleans()) else []
            scn["steps"] = pre + scn["steps"] + [{"op": "create_sf", "root": "", "formats": draw(gen.formats(2)), "flags": [], "sf": draw(st.sampled_from([["..metadata", "dd/..sync state"], ["dd"], ["...", "dd/take\\1.bin"]]))},
                                                 {"op": "create", "root": "", "formats": draw(gen.formats(2)), "flags": []}]
    elif extra == "altered_multi":
        # a file recorded in two or three formats is altered and sealed again in those formats (folder mode or -sf): exit 11
        if "am" not in hist.top_names_used(scn):
            fm = draw(st.lists(st.sampled_from(gen.CLI_FORMATS), min_size=2, max_size=3, unique=True))
            scn["tree"]["am"] = {"kept.mov": "kept", "altered later.mov": "as first recorded"}
            again = {"op": "create", "root": "", "formats": draw(st.permutations(fm)), "flags": []}
            if draw(st.booleans()):
                again = dict(again, op="create_sf", sf=["am"])
            scn["steps"] = scn["steps"] + [{"op": "create", "root": "", "formats": fm, "flags": []}, {"op": "overwrite", "path": "am/altered later.mov", "spec": "altered afterwards"}, again]
    elif extra == "big":
        # one file beyond the 1 MiB read chunk, size not a multiple of it
        if "big.bin" not in hist.top_names_used(scn):
            scn["tree"]["big.bin"] = [draw(st.binary(min_size=1, max_size=5)).hex(), (1 << 20) + draw(st.integers(1, 300000))]
    return scn


@st.composite
def _flat_with_patterns(draw):
    tree = draw(gen.trees("plain", max_leaves=10, min_top=2))
    tree.setdefault("Camera Reports", {"report 1.txt": "r1"})
    tree.setdefault("my notes.txt", "mine")
    tree.setdefault("my", "a file named like a fragment of the pattern")
    tree.setdefault("notes.txt", "another fragment")
    names = sorted({p.split("/")[-1] for p in gen.tree_files(tree) + gen.tree_dirs(tree)})
    pats = draw(st.lists(st.sampled_from(names + ["my notes.txt", "Camera Reports"]), min_size=1, max_size=3, unique=True))
    tree.setdefault("kid", {"k.txt": "in the nested history", "my": "another 'my'"})
    kid_history = draw(st.booleans())
    return {"kind": "flat_with_patterns", "tree": tree, "patterns": pats, "via": draw(st.sampled_from(["-i", "-ii", "-ii"])),
            "gens": draw(st.lists(gen.formats(2), min_size=2 if kid_history else 1, max_size=3)),
            "newline": draw(st.booleans()),
            # optionally 'kid' has a history of its own and one generation of the top history is a create -sf on a file in it
            "kid_history": kid_history, "sf_generation_at": draw(st.sampled_from([1, 1, 2]))}


def strategy(tier):
    return st.one_of(_scn(), _scn(), _scn(), _scn(), _flat_with_patterns())


def run_flat_with_patterns(scn, ctx):
    from .c12 import matches

    with World("c02p") as w:
        w.build("R", scn["tree"])
        os.makedirs(w.abs("_ii"), exist_ok=True)
        with open(w.abs("_ii/patterns.txt"), "w") as fh:
            fh.write("\n".join(scn["patterns"]) + ("\n" if scn["newline"] else ""))
        extra = ["-ii", w.abs("_ii/patterns.txt")] if scn["via"] == "-ii" else [a for p in scn["patterns"] for a in ("-i", p)]
        kid = scn.get("kid_history") and "R/kid" in w.dirs
        if kid:
            res = w.create("R/kid", ["md5"])
            require(res.exc is None and res.exit_code == 0, "create-abort", res.brief(), res)
        for gi, fm in enumerate(scn["gens"]):
            if kid and gi > 0 and gi == scn.get("sf_generation_at") and "R/kid/k.txt" in w.files:
                res = w.create("R", fm, sf=["R/kid/k.txt"])
                require(res.exc is None and res.exit_code == 0, "create-abort", res.brief(), res)
                ctx.event("sf_generation_between")
            res = w.create("R", fm, extra=extra if gi == 0 else [])
            require(res.exc is None and res.exit_code == 0, "create-abort", res.brief(), res)
            doc = w.read_history("R")[-1][2]
            got = {(r["kind"], r["path"]) for r in doc["records"]}
            if kid and len(w.manifests("R/kid")) > 1:
                # records of the nested history written by this run count with their path below the top folder
                kd = w.read_history("R/kid")[-1][2]
                if doc["references"]:
                    got |= {(r["kind"], "kid/" + r["path"]) for r in kd["records"]}
            exp = {("file", f[2:]) for f in w.media_files("R") if not matches(f[2:], scn["patterns"])} | {("dir", d[2:]) for d in w.media_dirs("R") if not matches(d[2:], scn["patterns"])}
            require(got == exp, "missing-record" if exp - got else "extra-record",
                    "generation %d with patterns %r (%s): not recorded %s, recorded but excluded %s" % (gi + 1, scn["patterns"], scn["via"], sorted(exp - got)[:4], sorted(got - exp)[:4]), res)
            for r in doc["records"]:
                if r["kind"] == "file":
                    for e in r["entries"]:
                        require(e["digest"] == refhash.digest(e["fmt"], w.files["R/" + r["path"]]), "digest", "%s %s" % (r["path"], e["fmt"]), res)
        ctx.event("user_patterns_" + scn["via"])
        if any(" " in p for p in scn["patterns"]):
            ctx.event("pattern_with_blank")
        ctx.mark_nontrivial(len(scn["gens"]) >= 2 or any(" " in p for p in scn["patterns"]))
        return w.trace


def check_paths_form(path, res):
    require(path is not None and path != "", "path-form", "empty path in record", res)
    require(not path.startswith("/"), "path-form", "absolute path %r" % path, res)
    require("\\" not in path or True, "path-form", "", res)
    parts = path.split("/")
    require(".." not in parts and "." not in parts and "" not in parts, "path-form", "non-canonical relative path %r" % path, res)


def observe_create(w, scn, step, before_asc, res, ctx):
    """the C02 oracle for one create run"""
    require(res.exc is None, "create-abort", "create aborted: " + res.brief(), res)
    require(res.exit_code in (0, 10, 11, 30), "create-abort", "unexpected exit code: " + res.brief(), res)
    after = w.asc_files()
    new = sorted(p for p in after if p not in before_asc and p.endswith(".mhl"))
    if step["op"] == "create":
        require(bool(new), "new-manifest", "create wrote no manifest: " + res.brief(), res)
    root = hist.wpath(scn, step["root"])
    roots = w.history_roots()
    got = {}
    F = set(step["formats"])
    for mp in new:
        hroot = posixpath.dirname(posixpath.dirname(mp))
        man = w.read_history(hroot)
        doc = [d for n, p, d in man if p == mp][0]
        seen = set()
        for rec in doc["records"]:
            check_paths_form(rec["path"], res)
            require(rec["path"] not in seen, "duplicate", "path %r twice in %s" % (rec["path"], mp), res)
            seen.add(rec["path"])
            full = hroot + "/" + rec["path"]
            key = (rec["kind"], full)
            require(key not in got, "duplicate", "%s recorded in two manifests of one run" % (key,), res)
            got[key] = (hroot, rec)
    if step["op"] == "create":
        exp = {("file", f) for f in w.media_files(root)} | {("dir", d) for d in w.media_dirs(root)}
    else:
        exp = set()
        for s in step["sf"]:
            sp = hist.wpath(scn, s)
            if sp == root:
                ctx.event("sf_names_root")
            if sp in w.files:
                exp.add(("file", sp))
            else:
                exp |= {("file", f) for f in w.media_files(sp)}
                ctx.event("sf_folder")
    missing = exp - set(got)
    extra = set(got) - exp
    require(not missing, "missing-record", lambda: "not recorded: %s  (%s)" % (sorted(missing)[:5], res.brief()), res)
    require(not extra, "extra-record", lambda: "recorded but not expected: %s  (%s)" % (sorted(extra)[:5], res.brief()), res)
    for (kind, full), (hroot, rec) in got.items():
        want_root = w.deepest_root(full, roots, for_dir_entry=(kind == "dir"))
        require(hroot == want_root, "wrong-history", "%s recorded in history %r, deepest enclosing is %r" % (full, hroot, want_root), res)
        if kind == "file":
            fm = {e["fmt"] for e in rec["entries"]}
            if not any(e["action"] == "failed" for e in rec["entries"]):
                require(F <= fm, "formats", "%s: requested %s, recorded %s" % (full, sorted(F), sorted(fm)), res)
            else:
                # (an altered file keeps its failed check and gets no new-format digest: C04) - but every requested
                # format the history already holds for it is computed and recorded again
                old = {e["fmt"] for n_, p_, d_ in w.read_history(hroot) if p_ not in new for r_ in d_["records"] if r_["kind"] == "file" and r_["path"] == rec["path"] for e in r_["entries"]}
                require((F & old) <= fm, "formats", "altered %s: requested and already recorded %s, recorded now %s" % (full, sorted(F & old), sorted(fm)), res)
                ctx.event("failed_record_formats")
            for e in rec["entries"]:
                ref = refhash.digest(e["fmt"], w.files[full])
                require(e["digest"] == ref, "digest", "%s %s: recorded %s, bytes hash to %s" % (full, e["fmt"], e["digest"], ref), res)
    return exp


def run_case(scn, ctx):
    if scn.get("kind") == "flat_with_patterns":
        return run_flat_with_patterns(scn, ctx)
    with World("c02") as w:
        hist.setup_world(w, scn)
        ncreates = 0
        nontrivial = False
        for step in scn["steps"]:
            if step["op"] in ("create", "create_sf"):
                before = w.asc_files()
                roots_before = w.history_roots()
                res = hist.apply_step(w, scn, step)
                exp = observe_create(w, scn, step, before, res, ctx)
                root = hist.wpath(scn, step["root"])
                files = [p for k, p in exp if k == "file"]
                dirs = w.media_dirs(root)
                feats = set()
                if any(len(w.files[f]) == 0 for f in files):
                    feats.add("empty_file")
                if any(not any(x.startswith(d + "/") for x in list(w.files) + list(w.dirs)) for d in dirs):
                    feats.add("empty_dir")
                if any(any(ord(c) > 127 or c in "&<>\"' " for c in f[len(root):]) for f in files):
                    feats.add("special_name")
                if any(r != root and w.under(r, root) for r in w.history_roots()):
                    feats.add("nested")
                if ncreates and any(w.under(root, r) or w.under(r, root) for r in roots_before):
                    feats.add("prior_generation")
                if step["op"] == "create_sf":
                    feats.add("sf")
                if "-n" in step.get("flags", ()):
                    feats.add("-n")
                if any(len(w.files[f]) > (1 << 20) for f in files):
                    feats.add("big_file")
                hr = w.history_roots()
                if any(r != root and w.under(r, root) and any(x != r and x.startswith(r) and not x.startswith(r + "/") and posixpath.dirname(x) == posixpath.dirname(r) for x in list(w.files) + list(w.dirs)) for r in hr):
                    feats.add("prefix_sibling")
                for f in feats:
                    ctx.event(f)
                if dirs and len(files) >= 3 and feats - {"-n"}:
                    nontrivial = True
                ncreates += 1
            else:
                hist.apply_step(w, scn, step)
        ctx.event("creates", ncreates)
        ctx.mark_nontrivial(nontrivial)
        return w.trace

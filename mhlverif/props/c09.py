"""C09 - directory-hash verification detects any change anywhere in the tree.

Domain   sealed trees including flat ones (no sub-directories); histories with one or several formats per generation,
         several generations, nested histories with the same or differing formats, generations written with -n
         or -sf; files up to 2 MiB; then either no change or one mutation (append, in-place bit flip at any offset, rename, add file, add directory, remove file, remove
         subtree) at a generated depth, the root folder itself weighted 30 %; `verify -dh` on the top folder or on a
         nested history root.
         Later additions: `-h <recorded format>`; sub-folders sealed on their own in another format before / after the
         enclosing folder; trailing generations without directory hashes (-n, -sf); enumerated.
Oracle   three regions decided by the harness's bookkeeping: tree never edited since the first seal and not mutated =>
         exit 0; tree mutated and therefore different from what every generation recorded (and at least one
         generation of the verified history carries directory hashes) => exit 12; anything else => only 'no
         internal error'.  In all regions no exception other than a click exit may escape.
"""
import posixpath

from hypothesis import strategies as st

from .. import gen, hist
from ..world import World, require

ID = "C09"
LEVEL = "exploration"
RULE = (
    "generated: phase-1 history (creates in folder / -sf / -n mode, any formats, any directory => nested) on a tree "
    "that is (mostly) not edited, then 0 or 1 mutation at a drawn depth, then verify -dh; oracle = exit 0 / 12 / "
    "no-internal-error by region. non-trivial = flat folder, root-level mutation, >= 2 formats recorded, nested "
    "history present or a -n/-sf generation present; distinct by canonical scenario hash."
)
ASSUMPTIONS = ["default ignore patterns only", "no hash collisions"]
BUDGET = {"quick": (300, 4), "thorough": (80000, 16)}
REQUIRED = ["flat", "root_level_mutation", "deep_mutation", "multi_format", "nested", "-n_generation", "sf_generation", "unchanged", "differing_nested_formats", "root_spelled_slash", "root_spelled_dotrel", "renamed_to_other_normal_form", "change_below_percent_folder", "big_file_changed_in_place", "explicit_format"]

P1 = {
    "kinds": ["create"] * 6 + ["create_sf"] * 2 + ["put_new"],
    "min_steps": 0,
    "max_steps": 5,
    "max_leaves": 10,
    "min_top": 1,
    "flags": {"-n": 0.2},
}
MUT = ["edit", "rename", "add", "add_dir", "rm", "rmtree", "rename_normal_form", "rename_normal_form", "rename_normal_form", "edit_below_percent", "edit_below_percent"]


@st.composite
def _scn(draw):
    flat = draw(st.integers(0, 4)) == 0
    scn = draw(hist.scenarios(dict(P1, nest=not flat)))
    if flat:
        scn["tree"] = {k: v for k, v in scn["tree"].items() if not isinstance(v, dict)} or {"only.txt": "x"}
        scn["steps"] = [s for s in scn["steps"] if s["op"] in ("create",) and s["root"] == ""]
    used = hist.top_names_used(scn)
    if not ({"Caf\u00e9.mov", "100% final"} & used) and draw(st.booleans()):
        # a composed (NFC) name that can be renamed to its decomposed spelling, and a folder with a '%' in its name
        scn["tree"]["Caf\u00e9.mov"] = "accent"
        if not flat:
            scn["tree"]["100% final"] = {"take %d.mov": "percent", "sub%s": {"deep.mov": "d"}, "Caf\u00e9": {"x": "y"}}
    big = None
    if "big take.bin" not in used and draw(st.integers(0, 5)) == 0:
        # a file of one read chunk (1 MiB) or more, later changed in place somewhere in its first / middle / last part
        big = (1 << 20) + draw(st.sampled_from([0, 0, 1, 4096, 300001, 1 << 20]))
        scn["tree"]["big take.bin"] = ["c3a5", big]
    scn["steps"].append({"op": "create", "root": "", "formats": draw(gen.formats(3)), "flags": []})
    if draw(st.booleans()):
        scn["steps"].append({"op": "create", "root": "", "formats": draw(gen.formats(2)), "flags": draw(st.sampled_from([[], [], ["-n"]]))})
    m = hist.GenModel(scn["tree"])
    for s in scn["steps"]:
        m.apply(s)
    mut = None
    if draw(st.integers(0, 3)) > 0:
        rootlevel = draw(st.integers(0, 9)) < 3
        kind = draw(st.sampled_from(MUT))
        files = sorted(m.files)
        dirs = [d for d in sorted(m.dirs) if not m.has_root_below(d)]
        if rootlevel:
            files = [f for f in files if "/" not in f]
            dirs = [d for d in dirs if "/" not in d]
            parents = [""]
        else:
            parents = sorted(m.dirs) or [""]
        if kind == "rename_normal_form":
            cand = [p for p in files + dirs if "\u00e9" in p.split("/")[-1]]
            if cand:
                src = draw(st.sampled_from(cand))
                head, _, tail = src.rpartition("/")
                mut = {"kind": "rename", "path": src, "new": (head + "/" if head else "") + tail.replace("\u00e9", "e\u0301")}
        elif kind == "edit_below_percent":
            cand = [p for p in files if "%" in p.rsplit("/", 1)[0]] if not rootlevel else []
            if cand:
                mut = {"kind": "edit", "path": draw(st.sampled_from(cand))}
        elif kind in ("edit", "rm") and files:
            mut = {"kind": kind, "path": draw(st.sampled_from(files))}
        elif kind == "rename" and (files or dirs):
            src = draw(st.sampled_from(files + dirs))
            mut = {"kind": "rename", "path": src, "new": src + ".r"}
        elif kind == "rmtree" and dirs:
            mut = {"kind": "rmtree", "path": draw(st.sampled_from(dirs))}
        elif kind in ("add", "add_dir"):
            parent = draw(st.sampled_from(parents))
            mut = {"kind": kind, "path": (parent + "/" if parent else "") + "zz_new_" + draw(gen.names("plain"))}
        if mut and (mut["path"] in m.files or mut["path"] in m.dirs) and mut["kind"] in ("add", "add_dir"):
            mut = None
    if big and draw(st.booleans()):
        mut = {"kind": "edit_inplace", "path": "big take.bin", "at": draw(st.sampled_from([0, 0, 1, 1000, (1 << 20) - 1, 1 << 20, big - 1])) % big}
    scn["mutation"] = mut
    roots = [""] + [r for r in m.roots if r]
    scn["target"] = draw(st.sampled_from(roots + [""] * (2 * len(roots))))
    scn["form"] = draw(st.sampled_from(["abs", "abs", "slash", "dotrel"]))
    scn["verbose"] = draw(st.sampled_from([False, False, True]))  # how the root is spelled on the command line
    scn["hflag"] = draw(st.sampled_from([None, None, 0, 1, 2]))  # -h <one of the formats the verified history holds directory hashes in>
    return scn


def strategy(tier):
    return _scn()


def enumerated(tier):
    """a sub-folder sealed on its own, in another format, after (or before) the enclosing folder was sealed; verify -dh on
    the enclosing folder with and without -h, unchanged and with one change in either part"""
    tree = {"a.mov": "a", "Audio": {"b.wav": "b", "deep": {"c.wav": "c"}}, "Video": {"d.mov": "d"}}
    orders = ([("", ["md5"]), ("Audio", ["xxh64"])], [("Audio", ["xxh64"]), ("", ["md5"])], [("", ["md5"]), ("Audio", ["xxh64"]), ("", ["md5"])], [("", ["md5", "c4"]), ("Audio/deep", ["sha1"]), ("Audio", ["xxh64"])])
    for order in orders:
        for hflag in (None, 0):
            for mut in (None, {"kind": "edit", "path": "Audio/deep/c.wav"}, {"kind": "edit", "path": "Video/d.mov"}, {"kind": "rename", "path": "Audio/b.wav", "new": "Audio/b2.wav"}):
                yield {"root": "Card", "tree": tree, "spell": "abs", "steps": [{"op": "create", "root": r, "formats": fm, "flags": []} for r, fm in order],
                       "mutation": mut, "target": "", "form": "abs", "verbose": False, "hflag": hflag}
    # the latest generation(s) carry no directory hashes (-n, -sf): the earlier ones still decide
    for tail in ([("create", ["-n"])], [("create_sf", [])], [("create", ["-n"]), ("create", ["-n"])], [("create", []), ("create", ["-n"])]):
        for mut in (None, {"kind": "edit", "path": "Audio/deep/c.wav"}, {"kind": "add", "path": "zz_new.mov"}, {"kind": "rm", "path": "a.mov"}):
            steps = [{"op": "create", "root": "", "formats": ["xxh64"], "flags": []}]
            for op, fl in tail:
                st_ = {"op": op, "root": "", "formats": ["xxh64"], "flags": fl}
                if op == "create_sf":
                    st_["sf"] = ["Video/d.mov"]
                steps.append(st_)
            yield {"root": "Card", "tree": tree, "spell": "abs", "steps": steps, "mutation": mut, "target": "", "form": "abs", "verbose": False, "hflag": None}


def run_case(scn, ctx):
    with World("c09") as w:
        hist.setup_world(w, scn)
        top = scn["root"]
        edited_after_first_seal = False
        sealed_once = False
        feats = set()
        for step in scn["steps"]:
            if step["op"] in ("create", "create_sf"):
                res = hist.apply_step(w, scn, step)
                require(res.exc is None and res.exit_code == 0, "setup", "phase 1: " + res.brief(), res)
                sealed_once = True
                if "-n" in step.get("flags", ()):
                    feats.add("-n_generation")
                if step["op"] == "create_sf":
                    feats.add("sf_generation")
            else:
                hist.apply_step(w, scn, step)
                if sealed_once:
                    edited_after_first_seal = True
        target = hist.wpath(scn, scn["target"])
        if target not in w.history_roots():
            target = top  # (a create -sf on an empty folder writes nothing: the generator's notion of a root was wrong)
        roots = w.history_roots()
        hist_docs = {r: w.read_history(r) for r in roots if w.under(r, target)}
        target_has_dirhashes = any(d["roothash"] for _, _, d in hist_docs.get(target, []))
        fmts_by_root = {r: {e["fmt"] for _, _, d in docs for e in (d["roothash"] or [])} for r, docs in hist_docs.items()}
        allfmts = set().union(*fmts_by_root.values()) if fmts_by_root else set()
        if len(fmts_by_root.get(target, ())) >= 2:
            feats.add("multi_format")
        if len(hist_docs) >= 2:
            feats.add("nested")
            if any(v and v != fmts_by_root[target] for r, v in fmts_by_root.items() if r != target):
                feats.add("differing_nested_formats")
        if not w.media_dirs(target):
            feats.add("flat")

        mu = scn["mutation"]
        applied = False
        if mu:
            p = hist.wpath(scn, mu["path"])
            if w.under(p, target) and p != target:
                if mu["kind"] == "edit":
                    w.put(p, w.files[p] + b"~")
                elif mu["kind"] == "edit_inplace":
                    b = bytearray(w.files[p])
                    b[mu["at"]] ^= 0x01
                    w.put(p, bytes(b))
                    feats.add("big_file_changed_in_place")
                elif mu["kind"] == "rm":
                    w.rm(p)
                elif mu["kind"] == "rmtree":
                    w.rmtree(p)
                elif mu["kind"] == "rename":
                    newp = hist.wpath(scn, mu["new"])
                    if newp in w.files or newp in w.dirs:
                        mu = None  # (the other spelling exists already: nothing to rename to)
                    else:
                        w.mv(p, newp)
                elif mu["kind"] == "add":
                    w.put(p, "brand new")
                elif mu["kind"] == "add_dir":
                    w.mkdir(p)
                applied = mu is not None
                mu = mu or {"kind": "none"}
                if mu["kind"] == "rename" and "e\u0301" in mu.get("new", ""):
                    feats.add("renamed_to_other_normal_form")
                if "%" in posixpath.dirname(p):
                    feats.add("change_below_percent_folder")
                if posixpath.dirname(p) == target:
                    feats.add("root_level_mutation")
                else:
                    feats.add("deep_mutation")
        form = scn.get("form", "abs")
        dh = ["-dh", "-v"] if scn.get("verbose") else ["-dh"]
        if scn.get("hflag") is not None and fmts_by_root.get(target):
            fl = sorted(fmts_by_root[target])
            dh += ["-h", fl[scn["hflag"] % len(fl)]]
            feats.add("explicit_format")
        if form == "slash":
            res = w.verify(target, flags=dh, spell="slash")
        elif form == "dotrel":
            import os as _os

            res = w.run("verify", ["./" + _os.path.basename(w.abs(target))] + dh, cwd=_os.path.dirname(w.abs(target)))
        else:
            res = w.verify(target, flags=dh)
        if form != "abs":
            feats.add("root_spelled_" + form)
        require(res.exc is None, "no-internal-error", "verify -dh aborted: " + res.brief(), res)
        if applied and target_has_dirhashes and not edited_after_first_seal:
            # (a tree edited between generations may, after the mutation, equal an earlier generation again)
            require(res.exit_code == 12, "detects-change", "%s applied but %s" % (mu, res.brief()), res)
            ctx.event("changed")
        elif not applied and not edited_after_first_seal:
            require(res.exit_code == 0, "unchanged-ok", "tree identical to every generation but %s\n%s" % (res.brief(), res.output[-600:]), res)
            feats.add("unchanged")
        else:
            ctx.event("unasserted_region")
        for f in feats:
            ctx.event(f)
        ctx.mark_nontrivial(bool(feats - {"unchanged", "deep_mutation"}))
        return w.trace

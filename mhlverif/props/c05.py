"""C05 - any change to a chained manifest is detected before anything else happens.

Domain   generated histories (1-6 generations per history, nesting to any depth the tree allows); victim = every chained
         manifest of every history (all of them when there are <= 6, a drawn sample otherwise) x drawn edits {flip
         one bit, insert a byte, delete a byte, truncate, append newline, replace by same-length bytes, remove
         file} at drawn positions (first/last byte weighted) or removal of a chain file; command = every
         history-reading command {create, create -sf, verify, verify -sf, verify -dh, diff, info, info -sf with and
         without root, flatten}, invoked on the victim's history, any ancestor history, or the folder above them all
         (which has no history of its own); in a third of the worlds
         the ascmhl folders also hold the temporary files an interrupted create leaves behind.
         Later additions: histories with more than nine generations (victims from generation 9 on, enumerated).
Oracle   scope(command) = the history it loads and all descendants; victim in scope => exit code is exactly 31
         (edited) / 33 (manifest removed) / 32 (chain removed) and the before/after snapshot (type, bytes, mtime,
         mode) of the whole scratch area, flatten destination included, is identical.  Out of scope: not asserted.
"""
import os
import posixpath

from hypothesis import strategies as st

from .. import gen, hist
from ..world import ASC, CHAIN, World, require

ID = "C05"
LEVEL = "fault_enumeration"
RULE = (
    "generated: history (phase 1 as C03) -> for each victim manifest (all if <= 6) x 2 drawn (edit kind, position) "
    "+ one chain removal -> all 10 history-reading commands on a drawn ancestor-or-self root; exit code and "
    "write-nothing snapshot asserted when the victim is in the command's scope. non-trivial = victim is not the "
    "latest generation of the outermost history, or the edit is a single bit/byte change; one evaluation = one "
    "command run on one tampered world, distinct by (scenario hash, victim, edit, command)."
)
ASSUMPTIONS = ["one tamper at a time (plus a drawn share of double tampers); chain file content edits are outside the statement"]
BUDGET = {"quick": (100, 4), "thorough": (7200, 16)}
REQUIRED = ["generation>=10_victim", "invoked_above_all_histories", "leftover_partial_files", "older_generation", "nested_victim", "bitflip", "removed", "swapped_generation", "whitespace_only_edit", "chain_removed", "flatten", "info_sf_noroot"]

P1 = {
    "kinds": ["create"] * 6 + ["create_sf"] * 2 + ["put_new"] * 2 + ["overwrite", "mkdir"],
    "min_steps": 0,
    "max_steps": 7,
    "max_leaves": 10,
    "min_top": 1,
    "flags": {"-n": 0.15},
}
EDITS = ["flip", "flip", "insert", "delete", "truncate", "append_nl", "replace", "remove", "swap", "swap", "cr_before_lf", "crlf_all", "strip_trailing_nl", "tab_for_spaces"]
COMMANDS = ["create", "create_sf", "verify", "verify_sf", "verify_dh", "diff", "info", "info_sf_root", "info_sf_noroot", "flatten"]


@st.composite
def _scn(draw):
    scn = draw(hist.scenarios_deep(P1))
    scn["steps"].append({"op": "create", "root": "", "formats": draw(gen.formats(2)), "flags": []})
    if draw(st.integers(0, 3)) == 0:
        scn["root"] = draw(st.sampled_from(["Reel[A001]", "card[2]", "x[!a]y", "{a,b}", "star*", "q?", "100%"]))  # names special to glob / format code
    if draw(st.integers(0, 2)) == 0:
        scn["steps"].append({"op": "create", "root": "", "formats": draw(gen.formats(2)), "flags": []})  # make sure there are >= 2 generations
    pos = st.one_of(st.sampled_from([0, 1000]), st.integers(0, 1000))
    scn["tampers"] = draw(
        st.lists(
            st.fixed_dictionaries({"edit": st.sampled_from(EDITS), "pos": pos, "bit": st.integers(0, 7), "byte": st.integers(0, 255), "t": st.integers(0, 5)}),
            min_size=12,
            max_size=12,
        )
    )
    scn["pick"] = draw(st.lists(st.integers(0, 1000), min_size=6, max_size=6))
    scn["double"] = draw(st.sampled_from([False, False, False, True]))
    # what an interrupted create leaves behind in the ascmhl folders (the refusal must not tidy it up either)
    scn["strays"] = draw(st.sampled_from([False, False, True]))
    return scn


def strategy(tier):
    return _scn()


def enumerated(tier):
    """every byte position of the first manifest of a fixed two-level world, one bit flipped, x {info, verify}"""
    step = 64 if tier == "quick" else 1
    chunk = 256
    for start in range(0, 4096, chunk):
        yield {"kind": "bytesweep", "start": start, "end": start + chunk, "step": step}
    # histories with more than nine generations (root and nested): every manifest from generation 9 on, edited / removed
    yield {"kind": "longhist", "gens": 14}
    yield {"kind": "longhist", "gens": 12}


def run_longhist(scn, ctx):
    with World("c05l") as w:
        w.build("R", {"a.txt": "alpha", "kid": {"b.bin": "beta"}})
        for i in range(scn["gens"]):
            res = w.create("R/kid" if i % 5 == 4 else "R", ["md5"])
            require(res.exit_code == 0, "setup", res.brief(), res)
        n = 0
        for h in ("R", "R/kid"):
            for num, mp in w.manifests(h):
                if num < 9:
                    continue
                path = w.abs(mp)
                original = open(path, "rb").read()
                st_ = os.stat(path)
                for edit, want in (("append", 31), ("remove", 33)):
                    if edit == "append":
                        with open(path, "ab") as fh:
                            fh.write(b"\n")
                        os.utime(path, ns=(st_.st_atime_ns, st_.st_mtime_ns))
                    else:
                        os.remove(path)
                    before = w.snapshot()
                    for cmd in ("info", "verify", "diff", "create"):
                        res = w.run("create", [w.abs("R"), "-h", "md5"]) if cmd == "create" else getattr(w, cmd)("R")
                        require(res.exit_code == want and res.exc is None, "exit-code", "%s with generation %d of %r %s: %s" % (cmd, num, h, "edited" if edit == "append" else "removed", res.brief()), res)
                        n += 1
                    require(w.snapshot() == before, "writes-nothing", "disk changed while refusing (generation %d of %r)" % (num, h), None)
                    with open(path, "wb") as fh:
                        fh.write(original)
                    os.utime(path, ns=(st_.st_atime_ns, st_.st_mtime_ns))
        ctx.event("generation>=10_victim", n)
        ctx.event("older_generation")
        ctx.mark_nontrivial(n > 0)
        return w.trace


def run_bytesweep(scn, ctx):
    with World("c05s") as w:
        w.build("R", {"a.txt": "alpha", "sub": {"b.bin": ["00ff", 500], "c c.txt": "gamma"}})
        for root, fm in (("R/sub", ["md5"]), ("R", ["xxh64", "c4"]), ("R", ["sha1"])):
            res = w.create(root, fm)
            require(res.exit_code == 0, "setup", res.brief(), res)
        victims = [w.manifests("R")[0][1], w.manifests("R/sub")[0][1]]
        n = 0
        for vp_ in victims:
            path = w.abs(vp_)
            original = open(path, "rb").read()
            st_ = os.stat(path)
            before = w.snapshot()
            for pos in range(scn["start"], min(scn["end"], len(original)), scn["step"]):
                b = bytearray(original)
                b[pos] ^= 1 << (pos % 8)
                with open(path, "wb") as fh:
                    fh.write(bytes(b))
                os.utime(path, ns=(st_.st_atime_ns, st_.st_mtime_ns))
                tampered = w.snapshot()
                for cmd in ("info", "verify"):
                    res = getattr(w, cmd)("R")
                    require(res.exit_code == 31 and res.exc is None, "exit-code", "%s with bit %d of byte %d of %s flipped: %s" % (cmd, pos % 8, pos, vp_, res.brief()), res)
                    n += 1
                require(w.snapshot() == tampered, "writes-nothing", "disk changed while refusing (byte %d of %s)" % (pos, vp_), None)
            with open(path, "wb") as fh:
                fh.write(original)
            os.utime(path, ns=(st_.st_atime_ns, st_.st_mtime_ns))
        ctx.event("bytesweep_runs", n)
        ctx.event("bitflip")
        ctx.event("nested_victim")
        ctx.event("older_generation")
        ctx.mark_nontrivial(n > 0)
        return w.trace


def tamper_bytes(data, t):
    n = len(data)
    p = min(n - 1, t["pos"] * n // 1000) if n else 0
    e = t["edit"]
    if e == "flip":
        b = bytearray(data)
        b[p] ^= 1 << t["bit"]
        return bytes(b)
    if e == "insert":
        return data[:p] + bytes([t["byte"]]) + data[p:]
    if e == "delete":
        return data[:p] + data[p + 1 :]
    if e == "truncate":
        return data[:p]
    if e == "append_nl":
        return data + b"\n"
    if e == "cr_before_lf":
        nl = [i for i, x in enumerate(data) if x == 0x0A]
        if not nl:
            return data + b"\r"
        i = nl[t["pos"] * len(nl) // 1001]
        return data[:i] + b"\r" + data[i:]
    if e == "crlf_all":
        return data.replace(b"\n", b"\r\n")
    if e == "strip_trailing_nl":
        return data.rstrip(b"\n") if data.endswith(b"\n") else data + b" "
    if e == "tab_for_spaces":
        i = data.find(b"\n  ", p) if data.find(b"\n  ", p) >= 0 else data.find(b"\n  ")
        return data[: i + 1] + b"\t" + data[i + 3 :] if i >= 0 else data + b"\t"
    if e == "replace":
        return bytes((x ^ 0x20) if 0x40 < x < 0x7F else (x ^ 0x01) for x in data)
    raise ValueError(e)


def run_commands(w, scn, T, files_below, victim_hist, expect, ctx, label, ev):
    """run every command on root T with the tamper in place; assert when in scope"""
    n = 0
    for ci, cmd in enumerate(COMMANDS):
        sf = None
        if "sf" in cmd:
            if not files_below:
                continue
            sf = files_below[(ev["i"] + ci) % len(files_below)]
        in_scope = True
        if cmd == "info_sf_noroot":
            nearest = w.deepest_root(sf, w.history_roots())
            in_scope = nearest is not None and w.under(victim_hist, nearest)
        before = w.snapshot()
        if cmd == "create":
            res = w.run("create", [w.abs(T), "-h", "md5"])
        elif cmd == "create_sf":
            res = w.run("create", [w.abs(T), "-h", "md5", "-sf", w.abs(sf)])
        elif cmd == "verify":
            res = w.verify(T)
        elif cmd == "verify_sf":
            res = w.verify(T, flags=["-sf", w.abs(sf)])
        elif cmd == "verify_dh":
            res = w.verify(T, flags=["-dh"])
        elif cmd == "diff":
            res = w.diff(T)
        elif cmd == "info":
            res = w.info(T)
        elif cmd == "info_sf_root":
            res = w.info(T, sf=[sf])
        elif cmd == "info_sf_noroot":
            res = w.info(None, sf=[sf])
        else:
            res = w.flatten(T, "_flat/out")
        after = w.snapshot()
        n += 1
        ctx.event("cmd_runs")
        if not in_scope:
            ctx.event("out_of_scope")
            # restore anything an out-of-scope command may legitimately have written? (info writes nothing)
            continue
        require(
            res.exit_code in expect and res.exc is None,
            "exit-code",
            "%s with %s: expected exit %s, got %s" % (cmd, label, sorted(expect), res.brief()),
            res,
        )
        if before != after:
            diffk = sorted(k for k in set(before) | set(after) if before.get(k) != after.get(k))
            require(False, "writes-nothing", "%s with %s changed the disk: %s" % (cmd, label, diffk[:6]), res)
        if cmd == "flatten":
            ctx.event("flatten")
        if cmd == "info_sf_noroot":
            ctx.event("info_sf_noroot")
    return n


def run_case(scn, ctx):
    if scn.get("kind") == "bytesweep":
        return run_bytesweep(scn, ctx)
    if scn.get("kind") == "longhist":
        return run_longhist(scn, ctx)
    with World("c05") as w:
        hist.setup_world(w, scn)
        top = scn["root"]
        for step in scn["steps"]:
            hist.apply_step(w, scn, step)
        os.makedirs(w.abs("_flat"), exist_ok=True)  # flatten's destination parent exists before any snapshot is taken
        roots = w.history_roots()
        if scn.get("strays"):
            for i, h in enumerate(roots):
                ms = w.manifests(h)
                half = open(w.abs(ms[-1][1]), "rb").read() if ms else b"<?xml"
                for name in (("ascmhl_manifest.partial", "ascmhl_chain.xml.partial") if i % 2 == 0 else ("ascmhl_manifest.partial",)):
                    with open(w.abs(h + "/" + ASC + "/" + name), "wb") as fh:
                        fh.write(half[: len(half) // 2])
            ctx.event("leftover_partial_files")
        manifests = []
        for h in roots:
            ms = w.manifests(h)
            for n, p in ms:
                manifests.append((h, n, p, n == ms[-1][0]))
        if not manifests:
            return w.trace
        if len(manifests) <= 6:
            victims = list(range(len(manifests)))
        else:
            victims = sorted({p % len(manifests) for p in scn["pick"]})[:5]
        nontrivial = False
        ev = {"i": 0}
        ti = 0
        for vi in victims:
            h, n, p, latest = manifests[vi]
            anc = [r for r in roots if w.under(h, r)]
            original = open(w.abs(p), "rb").read()
            st_ = os.stat(w.abs(p))
            for _ in range(2):
                t = scn["tampers"][ti % len(scn["tampers"])]
                ti += 1
                T = anc[(t["t"] + ti) % len(anc)]
                if (ti + scn["pick"][3]) % 4 == 0:
                    # a folder that has no history of its own, above all histories: the damaged one lies below it
                    T = ""
                    ctx.event("invoked_above_all_histories")
                files_below = [f for f in w.media_files(T) if not f.startswith("_flat/")]
                label = "%s of generation %d in %r (pos %d)" % (t["edit"], n, h, t["pos"])
                if t["edit"] == "remove":
                    os.remove(w.abs(p))
                    expect = {33}
                    ctx.event("removed")
                elif t["edit"] == "swap":
                    # the bytes of another generation of the same history: a valid manifest, but not the one chained here
                    others = [m[2] for m in manifests if m[0] == h and m[2] != p]
                    if not others:
                        continue
                    new = open(w.abs(others[t["pos"] % len(others)]), "rb").read()
                    if new == original:
                        continue
                    with open(w.abs(p), "wb") as fh:
                        fh.write(new)
                    os.utime(w.abs(p), ns=(st_.st_atime_ns, st_.st_mtime_ns))
                    expect = {31}
                    ctx.event("swapped_generation")
                else:
                    new = tamper_bytes(original, t)
                    if new == original:
                        continue
                    with open(w.abs(p), "wb") as fh:
                        fh.write(new)
                    os.utime(w.abs(p), ns=(st_.st_atime_ns, st_.st_mtime_ns))
                    expect = {31}
                    if t["edit"] == "flip":
                        ctx.event("bitflip")
                    if t["edit"] in ("cr_before_lf", "crlf_all", "strip_trailing_nl", "tab_for_spaces"):
                        ctx.event("whitespace_only_edit")
                second = None
                if scn["double"] and len(manifests) > 1:
                    h2, n2, p2, _l2 = manifests[(vi + 1) % len(manifests)]
                    if w.under(h2, T):
                        second = (p2, open(w.abs(p2), "rb").read())
                        with open(w.abs(p2), "ab") as fh:
                            fh.write(b" ")
                        expect = expect | {31}
                        label += " + appended blank to generation %d in %r" % (n2, h2)
                        ctx.event("double")
                ev["i"] += 1
                run_commands(w, scn, T, files_below, h, expect, ctx, label, ev)
                with open(w.abs(p), "wb") as fh:
                    fh.write(original)
                os.utime(w.abs(p), ns=(st_.st_atime_ns, st_.st_mtime_ns))
                if second:
                    with open(w.abs(second[0]), "wb") as fh:
                        fh.write(second[1])
                if not latest or h != top or t["edit"] in ("flip", "insert", "delete"):
                    nontrivial = True
                if not latest:
                    ctx.event("older_generation")
                if h != top:
                    ctx.event("nested_victim")
        # chain removal in one drawn history
        h = roots[scn["pick"][0] % len(roots)]
        cp = w.abs(h + "/" + ASC + "/" + CHAIN)
        data = open(cp, "rb").read()
        os.remove(cp)
        anc = [r for r in roots if w.under(h, r)]
        T = anc[scn["pick"][1] % len(anc)]
        run_commands(w, scn, T, w.media_files(T), h, {32}, ctx, "chain file of %r removed" % h, ev)
        with open(cp, "wb") as fh:
            fh.write(data)
        ctx.event("chain_removed")
        # sanity: the restored world loads again
        res = w.info(top)
        require(res.exit_code == 0, "restore-sanity", "harness restore failed: %s" % res.brief(), res)
        ctx.mark_nontrivial(nontrivial)
        return w.trace

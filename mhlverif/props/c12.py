"""C12 - ignore patterns exclude consistently and only ever accumulate.

Domain   trees whose names come from [A-Za-z0-9._-] (so a name used as a pattern is literal); pattern sets from the three
         classes the property names - base names (present in the tree or not), globs (*.ext, pre*, *mid*, ?) and
         directory patterns (name/) - delivered via -i, repeated -i and -ii files over 1-4 generations of the top
         history, optionally with a nested child history that was sealed first with patterns of its own; commands
         create (folder mode), verify, verify -dh, diff.
         Later additions: root-anchored patterns ('/name', '/*.ext'); generations made with -n; patterns given only on the
         command line or in a pattern file of verify / diff / verify -dh -co; a folder excluded by 'name/' next to a file of
         that name; a nested history folder removed before a further create -i; a rename recorded with -dr whose new
         name is excluded afterwards (only on trees with pairwise distinct, non-empty contents).
Oracle   an own matcher (fnmatchcase per path component; directory patterns only against non-final components)
         gives X, the excluded entries.  (1) no record for a member of X, for an ascmhl folder or .DS_Store in any
         new manifest, every other entry recorded; (2) metamorphic: a twin world from which X was removed before
         anything ran yields the same records, digests and directory/root hashes in its last generation; editing,
         adding and deleting members of X leaves verify, diff (and verify -dh when the patterns never changed) at
         exit 0; (3) each new generation's pattern list = previous list as a prefix + the new patterns in order
         without duplicates; (4) a generation written into the nested history by a parent run contains every
         pattern of the parent's new generation.  A directory matched only by 'name/' is left unasserted.
"""
import fnmatch
import os
import posixpath

from hypothesis import strategies as st

from .. import gen
from ..world import World, require

ID = "C12"
LEVEL = "exploration"
RULE = (
    "generated: plain-named tree x 1-4 generations with -i/-ii pattern sets drawn from names of the tree, globs and "
    "directory patterns (x optional nested child with own patterns) x edits of excluded entries; oracle = own matcher "
    "+ twin world without the excluded entries. non-trivial = X holds a file and a directory (or an entry below an "
    "excluded directory) and (>= 2 generations or a nested history); distinct by canonical scenario hash."
)
ASSUMPTIONS = [
    "patterns are base names, simple globs, 'name/' directory patterns, root-relative paths 'a/b' or root-anchored names '/name', '/*.ext' (gitwildmatch, the syntax ignore.py names); negation, '**', comments and trailing blanks are not generated",
    "path components are matched case-sensitively",
]
BUDGET = {"quick": (200, 4), "thorough": (64000, 16)}
REQUIRED = ["glob", "dir_pattern", "basename", "relpath_pattern", "ii_file", "nested", "child_after_parent", "x_file_and_dir", "multi_generation", "duplicate_pattern", "verify_dh", "sf_generation", "real_missing_next_to_excluded", "blank_in_pattern_file_line", "cli_pattern_on_verify_dh", "nested_history_folder_removed", "cli_pattern_on_verify_and_diff", "anchored_pattern", "renamed_then_excluded", "pattern_file_on_verify_dh", "pattern_introduced_by_-n_generation"]

DEFAULTS = [".DS_Store", "ascmhl", "ascmhl/"]
_first = "abcdefghijklmnopqrstuvwxyzABCDEFGHIJKLMNOPQRSTUVWXYZ0123456789_."


def _walk(tree, prefix=""):
    for n, c in tree.items():
        p = prefix + n
        yield p, isinstance(c, dict)
        if isinstance(c, dict):
            yield from _walk(c, p + "/")


@st.composite
def _patterns(draw, names_files, names_dirs, k, relpaths=()):
    out = []
    for _ in range(k):
        kind = draw(st.sampled_from(["base", "base_dir", "base_dir", "glob", "glob", "dir", "dir", "absent"] + (["relpath"] * 3 + ["anchored"] * 2 if relpaths else [])))
        pool = names_files + names_dirs
        if kind == "relpath":
            out.append(draw(st.sampled_from(list(relpaths))))
            continue
        if kind == "anchored" and pool:
            # a leading separator ties a name (or glob) to the root level: deeper entries of that name stay
            n = draw(st.sampled_from(pool))
            out.append("/" + (n if draw(st.booleans()) or "." not in n[1:] else "*" + n[n.rindex("."):]))
            continue
        if kind == "base" and pool:
            out.append(draw(st.sampled_from(pool)))
        elif kind == "base_dir" and names_dirs:
            out.append(draw(st.sampled_from(names_dirs)))
        elif kind == "glob" and pool:
            n = draw(st.sampled_from(pool))
            form = draw(st.sampled_from(["ext", "pre", "mid", "q"]))
            if form == "ext" and "." in n[1:]:
                out.append("*" + n[n.rindex("."):])
            elif form == "pre":
                out.append(n[: draw(st.integers(1, max(1, len(n) // 2)))] + "*")
            elif form == "mid" and len(n) >= 3:
                out.append("*" + n[1:-1] + "*")
            else:
                out.append("?" * min(len(n), draw(st.integers(1, 3))))
        elif kind == "dir" and names_dirs:
            out.append(draw(st.sampled_from(names_dirs)) + "/")
        else:
            out.append("zz" + draw(st.text("abcxyz019", min_size=1, max_size=4)))
    return [p for p in out if p and (p[0] in _first + "*?" or (p[0] == "/" and len(p) > 1 and p[1] in _first + "*")) and p not in ("*", "**", "*/", "/*") and not p.startswith("*.*") and not p.startswith("/*.*")]


@st.composite
def _scn(draw):
    tree = draw(gen.trees("plain", max_leaves=14, min_top=2))
    if not any(isinstance(v, dict) for v in tree.values()):
        tree["d" + draw(gen.plain_names())] = draw(gen.trees("plain", max_leaves=5, min_top=1))
    if draw(st.integers(0, 2)) == 0:
        # names with inner blanks are literal for the matcher too; a pattern file must keep such a line in one piece
        tree.setdefault("Camera Reports", {"report 1.txt": "r1", "notes.txt": "n"})
        tree.setdefault("my notes.txt", "mine")
        tree.setdefault("my", "not to be confused")
        tree.setdefault("Clip 01.mov", "clip")
    dir_and_file_namesake = draw(st.integers(0, 2)) == 0 and "cache" not in tree
    if dir_and_file_namesake:
        # a directory pattern ('cache/') concerns folders of that name only: a regular file called 'cache' stays in
        tree["cache"] = {"inner.bin": "excluded with its folder", "deeper": {"x.bin": "x"}}
        first_dir = sorted(k for k, v in tree.items() if isinstance(v, dict) and k != "cache")
        if first_dir:
            tree[first_dir[0]]["cache"] = "a file that merely has the folder's name"
        else:
            dir_and_file_namesake = False
    entries = list(_walk(tree))
    nf = sorted({p.split("/")[-1] for p, d in entries if not d})
    nd = sorted({p.split("/")[-1] for p, d in entries if d})
    dirs = [p for p, d in entries if d]
    child = draw(st.one_of(st.none(), st.sampled_from(dirs), st.sampled_from(dirs))) if dirs else None
    deep = [p for p, d in entries if p.count("/") >= 1]  # root-relative path patterns (a/b, a/b/c.txt)
    gens = []
    for i in range(draw(st.integers(1, 4))):
        gens.append({"i": draw(_patterns(nf, nd, draw(st.integers(1, 3)) if i == 0 else draw(st.integers(0, 2)), deep)), "ii": draw(_patterns(nf, nd, draw(st.sampled_from([0, 0, 1, 2])), deep)), "formats": draw(gen.formats(2)),
                     "ii_newline": draw(st.booleans())})
    if dir_and_file_namesake:
        gens[0]["i"] = gens[0]["i"] + ["cache/"]
    for g in gens:
        # a generation made without directory hashes (-n) carries and applies patterns like any other
        g["n"] = draw(st.sampled_from([False, False, False, True]))
    files = [p for p, d in entries if not d]
    for i in range(1, len(gens)):
        if draw(st.integers(0, 3)) == 0 and files:
            # this generation is a create -sf on one file (its ancestors' histories get reference-only generations)
            gens[i] = dict(gens[i], i=[], ii=[], sf=draw(st.sampled_from(files)))
    if draw(st.booleans()) and gens[0]["ii"] + gens[0]["i"] and len(gens) > 1 and not gens[-1].get("sf"):
        allp = gens[0]["i"] + gens[0]["ii"]
        gens[-1]["ii"] = gens[-1]["ii"] + [allp[-1]]  # a pattern file repeating an earlier pattern
    if draw(st.booleans()) and gens[0]["i"] and len(gens) > 1 and not gens[-1].get("sf"):
        gens[-1]["i"] = gens[-1]["i"] + [gens[0]["i"][0]]  # a duplicate of an earlier pattern
    constant = draw(st.booleans())
    if constant:
        for g in gens[1:]:
            g["i"], g["ii"] = [], []
            g.pop("sf", None)
    return {"tree": tree, "child": child, "child_patterns": draw(_patterns(nf, nd, draw(st.integers(0, 2)))) if child else [], "gens": gens, "edits": draw(st.integers(0, 2**16)),
            # the nested history is started before generation child_at of the parent (0 = before the parent exists)
            "child_at": draw(st.integers(0, len(gens) - 1)) if child else 0}


def strategy(tier):
    return _scn()


def enumerated(tier):
    """fixed trees whose files all differ in content (so that the rename-detection part always applies), flat and with a
    nested history, patterns of every class"""
    tree = {"a.mov": "content a", "notes.txt": "content n", "x.tmp": "content x", "d": {"b.mov": "content b", "notes.txt": "content dn", "cache": {"c.bin": "content c"}}, "e": {"cache": "content ec"}}
    for pats in (["*.tmp"], ["/notes.txt", "cache/"], ["d/notes.txt", "x.tmp"]):
        for child in (None, "d"):
            yield {"tree": tree, "child": child, "child_patterns": [], "edits": 4242, "child_at": 0,
                   "gens": [{"i": pats, "ii": [], "formats": ["md5"], "ii_newline": False}, {"i": [], "ii": ["*.bak"], "formats": ["md5"], "ii_newline": True}]}


def matches(relpath, patterns):
    """our reading of the three pattern classes on a root-relative path"""
    parts = relpath.split("/")
    for p in patterns:
        if p.startswith("/") and "/" not in p[1:]:
            # anchored: only the entry of that name directly in the root (and what lies below it)
            if fnmatch.fnmatchcase(parts[0], p[1:]):
                return True
        elif p.endswith("/"):
            g = p[:-1]
            if any(fnmatch.fnmatchcase(c, g) for c in parts[:-1]):
                return True
        elif "/" in p:
            # a pattern with a directory part is relative to the root the command was started at
            if relpath == p or relpath.startswith(p + "/"):
                return True
        else:
            if any(fnmatch.fnmatchcase(c, p) for c in parts):
                return True
    return False


def ambiguous_dir(relpath, patterns):
    """a directory matched only by a trailing-slash pattern on its own name"""
    name = relpath.split("/")[-1]
    return any(p.endswith("/") and fnmatch.fnmatchcase(name, p[:-1]) for p in patterns)


def seal(w, root, g, tag):
    if g.get("sf"):
        return w.create(root, g["formats"], sf=["R/" + g["sf"]])
    args = []
    for p in g["i"]:
        args += ["-i", p]
    if g["ii"]:
        os.makedirs(w.abs("_ii"), exist_ok=True)
        fp = w.abs("_ii/%s.txt" % tag)
        with open(fp, "w") as fh:
            fh.write("\n".join(g["ii"]) + ("\n" if g["ii_newline"] else ""))
        args += ["-ii", fp]
    return w.create(root, g["formats"], extra=args, flags=["-n"] if g.get("n") else [])


def expected_list(prev, new):
    out = list(prev) if prev else list(DEFAULTS)
    for p in new:
        if p not in out:
            out.append(p)
    return out


def records_of(doc):
    out = {}
    for r in doc["records"]:
        out[(r["kind"], r["path"])] = sorted((e["fmt"], e["digest"], e["structure"]) for e in r["entries"])
    out[("root", "")] = sorted((e["fmt"], e["digest"], e["structure"]) for e in (doc["roothash"] or []))
    return out


def run_world(w, scn, remove_x_first, ctx, feats, check):
    tree = scn["tree"]
    w.build("R", tree)
    child = scn["child"]
    # effective pattern list of the top history after all generations (what the last run uses)
    eff = list(DEFAULTS)
    for g in scn["gens"]:
        if not g.get("sf"):
            eff = expected_list(eff, g["i"] + g["ii"])
    if remove_x_first:
        for p, isdir in sorted(_walk(tree), key=lambda t: -len(t[0])):
            if matches(p, eff) and ("R/" + p in w.files or "R/" + p in w.dirs):
                if isdir:
                    w.rmtree("R/" + p)
                else:
                    w.rm("R/" + p)
    prev_child = None

    def start_child():
        res = seal(w, "R/" + child, {"i": scn["child_patterns"], "ii": [], "formats": ["md5"], "ii_newline": True}, "child")
        require(res.exc is None and res.exit_code == 0, "setup", res.brief(), res)
        pc = w.read_history("R/" + child)[-1][2]["patterns"]
        if check:
            want = expected_list(None, scn["child_patterns"])
            require(pc == want, "pattern-list", "child first generation patterns %r, expected %r" % (pc, want), res)
        return pc

    prev = None
    last = None
    for gi, g in enumerate(scn["gens"]):
        if g.get("sf") and last is None:
            g = dict(g, sf=None)  # (the first generation is always a folder-mode one)
        if child and "R/" + child in w.dirs and gi == scn.get("child_at", 0):
            prev_child = start_child()
            if gi > 0:
                feats.add("child_after_parent")
        nchild = len(w.manifests("R/" + child)) if child else 0
        ntop = len(w.manifests("R"))
        if g.get("sf") and "R/" + g["sf"] not in w.files:
            continue
        res = seal(w, "R", g, "g%d" % gi)
        require(res.exc is None and res.exit_code == 0, "create-exit", "generation %d: %s\n%s" % (gi + 1, res.brief(), res.output[-300:]), res)
        if g.get("sf"):
            feats.add("sf_generation")
            if len(w.manifests("R")) > ntop:
                sdoc = w.read_history("R")[-1][2]
                if check:
                    want = expected_list(prev, [])
                    require(sdoc["patterns"] == want, "pattern-list", "-sf generation %d patterns %r, expected the recorded list %r" % (gi + 1, sdoc["patterns"], want), res)
                prev = sdoc["patterns"]
            if child and prev_child is not None and len(w.manifests("R/" + child)) > nchild:
                prev_child = w.read_history("R/" + child)[-1][2]["patterns"]
            continue
        doc = w.read_history("R")[-1][2]
        want = expected_list(prev, g["i"] + g["ii"])
        if check:
            require(doc["patterns"] == want, "pattern-list", "generation %d patterns %r, expected %r (previous %r, -i %r, -ii %r)" % (gi + 1, doc["patterns"], want, prev, g["i"], g["ii"]), res)
            require(prev is None or doc["patterns"][: len(prev)] == prev, "pattern-prefix", "earlier patterns not kept as prefix", res)
            require(len(set(doc["patterns"])) == len(doc["patterns"]), "pattern-duplicates", "duplicates in %r" % doc["patterns"], res)
        prev = doc["patterns"]
        cdoc = None
        if child and prev_child is not None and "R/" + child in w.dirs and len(w.manifests("R/" + child)) > nchild:
            # (a child whose root the parent's patterns exclude gets no generation from the parent run)
            cdoc = w.read_history("R/" + child)[-1][2]
            if check:
                require(set(prev) <= set(cdoc["patterns"]), "nested-propagation", "child generation patterns %r lack parent's %r" % (cdoc["patterns"], prev), res)
                require(cdoc["patterns"][: len(prev_child)] == prev_child, "pattern-prefix", "child's earlier patterns %r not a prefix of %r" % (prev_child, cdoc["patterns"]), res)
            prev_child = cdoc["patterns"]
            feats.add("nested")
        if check:
            # (1) record set against our matcher
            recs = {}
            for k, v in records_of(doc).items():
                if k[0] != "root":
                    recs[(k[0], k[1])] = v
            if cdoc is not None:
                for k, v in records_of(cdoc).items():
                    if k[0] != "root":
                        recs[(k[0], child + "/" + k[1])] = v
            for (kind, p) in recs:
                require(not matches(p, prev), "x-recorded", "generation %d records %r which patterns %r exclude" % (gi + 1, p, prev), res)
                require("ascmhl" not in p.split("/") and ".DS_Store" not in p.split("/"), "x-recorded", "recorded %r" % p, res)
            for f in w.media_files("R"):
                rp = f[2:]
                if not matches(rp, prev):
                    require(("file", rp) in recs, "not-x-missing", "generation %d: %r is not excluded by %r but has no record" % (gi + 1, rp, prev), res)
            for d in w.media_dirs("R"):
                rp = d[2:]
                if not matches(rp, prev) and not ambiguous_dir(rp, prev) and rp != child:
                    require(("dir", rp) in recs, "not-x-missing", "generation %d: directory %r is not excluded by %r but has no record" % (gi + 1, rp, prev), res)
        last = (doc, cdoc)
    return last, eff


def run_case(scn, ctx):
    feats = set()
    with World("c12") as w, World("c12twin") as tw:
        (doc, cdoc), eff = run_world(w, scn, False, ctx, feats, True)
        (tdoc, tcdoc), _ = run_world(tw, scn, True, ctx, feats, False)
        X = [(p, d) for p, d in _walk(scn["tree"]) if matches(p, eff)]
        amb = {p for p, d in _walk(scn["tree"]) if d and ambiguous_dir(p, eff)}
        # (2) metamorphic: same records and hashes with X removed beforehand
        a, b = records_of(doc), records_of(tdoc)
        for k in set(a) | set(b):
            if k[1] in amb:
                continue
            require(a.get(k) == b.get(k), "metamorphic", "record %r: with excluded entries present %r, with them removed %r (patterns %r)" % (k, a.get(k), b.get(k), eff), None)
        if cdoc is not None and tcdoc is not None:
            a, b = records_of(cdoc), records_of(tcdoc)
            for k in set(a) | set(b):
                if (scn["child"] + "/" + k[1]) in amb:
                    continue
                require(a.get(k) == b.get(k), "metamorphic", "child record %r: %r vs %r" % (k, a.get(k), b.get(k)), None)
        # a nested history started after the parent had recorded its files takes those files over; they are recorded there
        # by the next folder-mode run of the parent.  Without such a run (only -sf generations followed) files that the
        # child's own patterns skipped are legitimately 'new' for the parent - nothing to assert about verify / diff then.
        if scn["child"] and scn.get("child_at", 0) > 0 and not any(not g.get("sf") for g in scn["gens"][scn["child_at"]:]):
            ctx.event("child_never_resealed_by_parent")
            for f in feats:
                ctx.event(f)
            return w.trace
        # edits confined to X
        xfiles = [p for p, d in X if not d and "R/" + p in w.files]
        xdirs = [p for p, d in X if d and "R/" + p in w.dirs]
        e = scn["edits"]
        if xfiles:
            w.put("R/" + xfiles[e % len(xfiles)], "edited ignored file")
            if len(xfiles) > 1:
                w.rm("R/" + xfiles[(e // 7) % len(xfiles)]) if xfiles[(e // 7) % len(xfiles)] != xfiles[e % len(xfiles)] else None
        if xdirs:
            d = xdirs[(e // 3) % len(xdirs)]
            if "R/" + d in w.dirs:
                w.put("R/" + d + "/added_inside_ignored.bin", "new")
        for p in eff:
            if not p.endswith("/") and "/" not in p and "*" not in p and "?" not in p and p not in DEFAULTS and "R/" + p not in w.files and "R/" + p not in w.dirs:
                w.put("R/" + p, "new file with an ignored name")
                break
        w.put("R/.DS_Store", "finder")
        constant = all(not (g["i"] or g["ii"]) for g in scn["gens"][1:])
        for cmd in ("verify", "diff", "verify_dh"):
            if cmd == "verify_dh":
                if not constant or scn["child"]:
                    # verify -dh compares against every generation: only when the effective patterns never changed,
                    # in the top history and (hence no nested history sealed earlier with fewer patterns) can the
                    # unchanged-tree clause be asserted
                    continue
                res = w.verify("R", flags=["-dh"])
                feats.add("verify_dh")
            else:
                res = getattr(w, cmd)("R")
            require(res.exc is None and res.exit_code == 0, "x-edits-" + cmd, "only excluded entries were edited/added/deleted but %s\n%s" % (res.brief(), res.output[-400:]), res)
        # patterns given only on the command line (or in a pattern file) of verify / diff: a new file and a removed recorded
        # file that match them are reported neither as new nor as missing
        plain = lambda n: set(n) <= set("abcdefghijklmnopqrstuvwxyzABCDEFGHIJKLMNOPQRSTUVWXYZ0123456789._") and n[0] not in ".-"
        vict = [f for f in w.media_files("R") if not matches(f[2:], eff) and plain(f.split("/")[-1]) and (("R", f) in w.first or any(k[1] == f for k in w.first))
                and not any(matches(g[2:], [f.split("/")[-1]]) for g in w.media_files("R") + w.media_dirs("R") if g != f)]
        if vict:
            v2 = vict[(scn["edits"] // 11) % len(vict)]
            saved = w.files[v2]
            w.rm(v2)
            newdirs = [d for d in [""] + [d[2:] for d in w.media_dirs("R")] if not matches(d, eff)] if True else [""]
            nd = newdirs[(scn["edits"] // 13) % len(newdirs)]
            newf = "R/" + (nd + "/" if nd else "") + "only_on_cli.qqq"
            w.put(newf, "new, but excluded on the command line")
            os.makedirs(w.abs("_ii"), exist_ok=True)
            with open(w.abs("_ii/cli.txt"), "w") as fh:
                fh.write("*.qqq\n" + v2.split("/")[-1] + "\n")
            for cmd in ("verify", "diff"):
                for how, extra in (("-i", ["-i", "*.qqq", "-i", v2.split("/")[-1]]), ("-ii", ["-ii", w.abs("_ii/cli.txt")])):
                    res = w.run(cmd, [w.abs("R")] + extra)
                    require(res.exc is None and res.exit_code == 0, "cli-pattern-" + cmd, "%s %s: new %r and removed %r both match the given patterns but %s\n%s" % (cmd, how, newf[2:], v2[2:], res.brief(), res.output[-300:]), res)
            w.rm(newf)
            w.put(v2, saved)
            feats.add("cli_pattern_on_verify_and_diff")
        # patterns given on the command line of verify -dh: the printed directory hashes are those of the tree without the
        # matching entries - compared with the twin world from which the same entries are really removed
        from .c07 import printed_table

        cand = [f for f in w.media_files("R") if not matches(f[2:], eff) and f in tw.files and set(f.split("/")[-1]) <= set("abcdefghijklmnopqrstuvwxyzABCDEFGHIJKLMNOPQRSTUVWXYZ0123456789._") and f.split("/")[-1][0] not in ".-"]
        if cand and not scn["child"]:
            cli_pat = cand[(scn["edits"] // 5) % len(cand)].split("/")[-1]
            if scn["edits"] % 2:
                os.makedirs(w.abs("_ii"), exist_ok=True)
                with open(w.abs("_ii/dh.txt"), "w") as fh:
                    fh.write(cli_pat + "\n")
                r1 = w.verify("R", flags=["-dh", "-co", "-ii", w.abs("_ii/dh.txt")])
                feats.add("pattern_file_on_verify_dh")
            else:
                r1 = w.verify("R", flags=["-dh", "-co", "-i", cli_pat])
            for f in [f for f in list(tw.files) if f.startswith("R/") and matches(f[2:], [cli_pat])]:
                tw.rm(f)
            for d in sorted([d for d in list(tw.dirs) if d.startswith("R/") and matches(d[2:], [cli_pat])], key=len, reverse=True):
                if d in tw.dirs:
                    tw.rmtree(d)
            r2 = tw.verify("R", flags=["-dh", "-co"])
            require(r1.exc is None and r2.exc is None, "cli-pattern-dirhash", "verify -dh -co aborted: %s / %s" % (r1.brief(), r2.brief()), r1)
            t1, t2 = printed_table(r1.stdout), printed_table(r2.stdout)
            require(t1 == t2 and t1, "cli-pattern-dirhash", "verify -dh -co -i %r prints other directory hashes than the tree without the matching entries: %r vs %r" % (cli_pat, {k: v.get("") for k, v in t1.items()}, {k: v.get("") for k, v in t2.items()}), r1)
            feats.add("cli_pattern_on_verify_dh")

        # a recorded, non-excluded file really disappears: it - and only it - is reported missing, whatever excluded
        # entries were recorded by earlier generations (before their pattern became effective) or deleted above
        import re as _re

        gone_contents = []
        victims = [f for f in w.media_files("R") if not matches(f[2:], eff) and (("R", f) in w.first or any(k[1] == f for k in w.first))]
        if victims:
            victim = victims[scn["edits"] % len(victims)]
            vh = w.deepest_root(victim, w.history_roots())
            gone_contents.append(w.files[victim])
            w.rm(victim)
            for cmd in ("verify", "diff"):
                res = getattr(w, cmd)("R")
                require(res.exc is None and res.exit_code == 10, "missing-" + cmd, "recorded file %r removed: %s" % (victim[2:], res.brief()), res)
                lines = res.output.split("\n")
                block = None
                for i, l in enumerate(lines):
                    m = _re.match(r"^ERROR: (\d+) missing file\(s\):$", l)
                    if m:
                        block = {x[2:] for x in lines[i + 1 : i + 1 + int(m.group(1))]}
                        extra_lines = [x for x in lines[i + 1 :] if x.startswith("  ")]
                        require(len(extra_lines) == int(m.group(1)), "missing-listing", "%s announces %s missing file(s) but lists %r" % (cmd, m.group(1), extra_lines), res)
                require(block == {victim[2:]}, "missing-listing", "%s lists %r as missing; only %r is missing and not excluded (patterns %r)" % (cmd, block, victim[2:], eff), res)
            feats.add("real_missing_next_to_excluded")
        # a file is renamed, the rename recorded with -dr, and only afterwards a pattern matching the new name becomes
        # effective (on the command line of verify / diff, then through a create): the former name must not resurface
        # (rename detection presupposes pairwise distinct contents - C17 - also among the files that are gone; an empty file
        # is indistinguishable from a recorded folder that is empty or whose content is all excluded, so none of those)
        contents_now = [w.files[f] for f in w.files if f.startswith("R/")] + gone_contents
        if not scn["child"] and not any(matches(x, eff) for x in ("ren_src.mov", "ren_dst.qq7")) and "R/ren_src.mov" not in w.files and len(set(contents_now)) == len(contents_now) and b"" not in contents_now:
            w.put("R/ren_src.mov", "content that only the renamed file has")
            r0 = w.create("R", ["md5"])
            w.mv("R/ren_src.mov", "R/ren_dst.qq7")
            r1 = w.create("R", ["md5"], flags=["-dr"])
            if r0.exit_code in (0, 10) and r1.exit_code in (0, 10) and r0.exc is None and r1.exc is None:
                was = r1.exit_code
                for cmd in ("verify", "diff"):
                    res = w.run(cmd, [w.abs("R"), "-i", "*.qq7"])
                    require(res.exc is None and res.exit_code == was and "ren_src.mov" not in res.output and "ren_dst.qq7" not in res.output, "renamed-then-excluded", "%s -i '*.qq7' after a recorded rename ren_src.mov -> ren_dst.qq7: %s\n%s" % (cmd, res.brief(), res.output[-300:]), res)
                res = w.create("R", ["md5"], extra=["-i", "*.qq7"])
                require(res.exc is None and res.exit_code == was and "ren_src.mov" not in res.output, "renamed-then-excluded", "create -i '*.qq7' after a recorded rename: %s\n%s" % (res.brief(), res.output[-300:]), res)
                eff = eff + ["*.qq7"]
                for cmd in ("verify", "diff"):
                    res = getattr(w, cmd)("R")
                    require(res.exc is None and res.exit_code == was and "ren_src.mov" not in res.output, "renamed-then-excluded", "%s after the pattern was recorded: %s\n%s" % (cmd, res.brief(), res.output[-300:]), res)
                feats.add("renamed_then_excluded")
        # the folder of the nested history disappears altogether and the parent is sealed again with one more pattern: the
        # run ends with exit 10 (the child is missing) and still neither hashes nor records anything that is excluded
        child = scn["child"]
        if child and "R/" + child in w.history_roots() and any(x["path"].startswith(child + "/") for x in w.read_history("R")[-1][2]["references"]):
            w.rmtree("R/" + child)
            w.put("R/late_ignored.zzz", "matches only the newest pattern")
            nb = len(w.manifests("R"))
            res = w.create("R", ["md5"], extra=["-i", "*.zzz"])
            # (10: the folder is reported missing; 30 when the folder itself is excluded by a pattern, so that only the
            # reference to its vanished history remains to complain about - either way the generation is written)
            require(res.exc is None and res.exit_code in (10, 30), "child-gone", "create after the nested history folder %r was removed: %s" % (child, res.brief()), res)
            ms = w.read_history("R")
            require(len(ms) == nb + 1, "child-gone", "no generation written by the exit-%s run" % res.exit_code, res)
            now = eff + ["*.zzz"]
            for r in ms[-1][2]["records"]:
                require(not matches(r["path"], now), "x-recorded", "the generation written after the nested history %r was removed records %r which patterns %r exclude" % (child, r["path"], now), res)
            require(ms[-1][2]["patterns"] == expected_list(ms[-2][2]["patterns"], ["*.zzz"]), "accumulate", "patterns after the exit-10 run: %r" % ms[-1][2]["patterns"], res)
            require("hash mismatch" not in res.output, "x-hashed", "an excluded (edited) file was hashed: %s" % res.output[-300:], res)
            feats.add("nested_history_folder_removed")
        allp = [p for g in scn["gens"] for p in g["i"] + g["ii"]]
        if any("*" in p or "?" in p for p in allp):
            feats.add("glob")
        if any(p.endswith("/") for p in allp):
            feats.add("dir_pattern")
        if any(not p.endswith("/") and "/" not in p and "*" not in p and "?" not in p for p in allp):
            feats.add("basename")
        if any("/" in p[1:-1] for p in allp):
            feats.add("relpath_pattern")
        if any(p.startswith("/") for p in allp):
            feats.add("anchored_pattern")
        if any(" " in p for g in scn["gens"] for p in g["ii"]):
            feats.add("blank_in_pattern_file_line")
        if any(g["ii"] for g in scn["gens"]):
            feats.add("ii_file")
        if len(allp) != len(set(allp)):
            feats.add("duplicate_pattern")
        if len(scn["gens"]) >= 2:
            feats.add("multi_generation")
        if any(g.get("n") and (g["i"] or g["ii"]) for g in scn["gens"]):
            feats.add("pattern_introduced_by_-n_generation")
        xf = any(not d for p, d in X)
        xd = any(d for p, d in X) or any("/" in p and matches(posixpath.dirname(p), eff) for p, d in X)
        if xf and xd:
            feats.add("x_file_and_dir")
        for f in feats:
            ctx.event(f)
        ctx.mark_nontrivial(xf and xd and (len(scn["gens"]) >= 2 or "nested" in feats))
        return w.trace

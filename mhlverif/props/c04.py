"""C04 - digests are always judged against the first recorded value.

Domain   1-3 tracked files in a root history or a nested child history; 1-6 generations, each with a non-empty
         format subset (all 63 reachable), folder or -sf mode, and per file keep / alter / restore between
         generations; nested histories begun before or after the outer history recorded their
         files.  Enumerated completely: all ordered pairs of format subsets on one untouched file
         (quick: subsets of size <= 2, 441 pairs; thorough: all 63 x 63 = 3969 pairs).
         Later additions: files that appear in later generations, file names with a backslash / leading dots, a file of
         1 MiB + 4099 bytes, -sf paths typed relatively and in non-normalised forms.
Oracle   a ledger model kept by the harness (first digest per file and format, from hashlib/xxhash on the bytes
         the harness wrote) predicts for every new generation, read with the independent XML reader: the action
         of every entry (original only in the first recording generation; verified iff equal to the earliest
         digest of that format, failed otherwise), that new formats appear only next to a verified existing
         one and are 'verified', that a failed check is recorded and blocks new formats, and the exit code
         (0 untouched / 11 altered) - so the reference can never move to a later or failed generation.
"""
import itertools

from hypothesis import strategies as st

from .. import refhash
from ..world import World, content_bytes, require

ID = "C04"
LEVEL = "exploration"
RULE = (
    "generated: sequences of 1-6 create runs over 1-3 files (root or nested history; folder or -sf mode; per run a "
    "format subset of the six formats and per file keep/alter/restore), plus the complete product of format-subset "
    "pairs on one file; oracle = ledger model of first digests. non-trivial = >= 3 generations with a format change, "
    "or an alter followed by a restore; distinct by canonical hash of the scenario."
)
ASSUMPTIONS = [
    "manifests are read with the independent reader (C10 checks that both readers agree)",
    "files are only edited by the harness between runs, never during a run",
]
BUDGET = {"quick": (260, 4), "thorough": (64000, 16)}
REQUIRED = ["gens>=3", "alter", "restore", "nested", "nested_depth>=3", "sf", "new_format_added", "failed_recorded", "nested_history_begun_later", "file_appears_later", "sf_path_not_normalised"]
CLI = refhash.CLI_FORMATS

FILES = ["sub/big take.bin", "take\\1.bin", "a.txt", "sub/a.txt", "cafe\u0301.txt", "sub2/b.bin", "sub/b.bin", "sub/deep/c c.txt", "sub/deep/er/est/d.mov", "sub/\u212bngstrom 100%.mov", "sub/..two dots"]
BASE = {"sub/big take.bin": ["5ac3", (1 << 20) + 4099], "take\\1.bin": "a backslash is an ordinary character here", "sub/..two dots": "leading dots", "cafe\u0301.txt": "decomposed name", "sub/\u212bngstrom 100%.mov": "singleton + percent", "a.txt": "alpha", "sub/a.txt": "same relative path in the nested history", "sub2/b.bin": "beside the nested root", "sub/b.bin": ["00ff10", 3000],
        "sub/deep/c c.txt": "", "sub/deep/er/est/d.mov": "deepest"}
ROOTS = ["sub", "sub/deep", "sub/deep/er", "sub/deep/er/est"]


@st.composite
def _scenario(draw):
    nfiles = draw(st.integers(1, len(FILES)))
    files = FILES[:nfiles] if draw(st.booleans()) else FILES[len(FILES) - nfiles:]
    nested = []
    if draw(st.booleans()) and any(f.startswith("sub/") for f in files):
        # a chain of nested histories, created innermost or outermost first before anything else happens
        nested = draw(st.lists(st.sampled_from(ROOTS), min_size=1, max_size=4, unique=True))
        nested = [r for r in nested if any(f.startswith(r + "/") for f in files)]
    ngen = draw(st.integers(1, 6))
    gens = []
    # late: the outer history records everything first and the nested histories are begun afterwards, at any later point
    # (their first generation then meets files - and same-named files - that the parent has on record already)
    late = bool(nested) and draw(st.sampled_from([False, False, True]))
    total = ngen + len(nested)
    # some files only come into being before a later generation (their first record is younger than that of files with
    # the same history-relative path elsewhere)
    appear = {}
    if total >= 2 and len(files) >= 2 and draw(st.sampled_from([False, False, True])):
        for f in draw(st.lists(st.sampled_from(files), min_size=1, max_size=2, unique=True)):
            appear[f] = draw(st.integers(1, total - 1))
    for i in range(total):
        fm = draw(st.lists(st.sampled_from(CLI), min_size=1, max_size=draw(st.sampled_from([1, 1, 2, 2, 3, 6])), unique=True))
        if late:
            root = "" if i == 0 else draw(st.sampled_from(nested + nested + [""]))
        elif i < len(nested):
            root = nested[i]
        else:
            root = draw(st.sampled_from(nested)) if nested and draw(st.integers(0, 3)) == 0 else ""
        scope = [f for f in files if (root == "" or f.startswith(root + "/")) and appear.get(f, 0) <= i]
        mode = draw(st.sampled_from(["folder", "folder", "sf"])) if scope else "folder"
        sel = None
        if mode == "sf":
            sel = draw(st.lists(st.sampled_from(scope), min_size=1, max_size=len(scope), unique=True))
        edits = {}
        if i >= (1 if late else max(1, len(nested))):
            for f in files:
                if appear.get(f, 0) < i:
                    edits[f] = draw(st.sampled_from(["keep", "keep", "keep", "alter", "restore"]))
        gens.append({"formats": fm, "root": root, "sf": sel, "edits": edits, "sf_spell": draw(st.sampled_from([None, None, "dotslash", "dotdot"])) if sel else None})
    return {"files": files, "nested": nested, "gens": gens, "late": late, "appear": appear, "spell": draw(st.sampled_from(["abs", "abs", "rel", "dot"]))}


def strategy(tier):
    return _scenario()


def _subsets(maxsize):
    out = []
    for k in range(1, maxsize + 1):
        out += [list(c) for c in itertools.combinations(CLI, k)]
    return out


def enumerated(tier):
    subs = _subsets(2 if tier == "quick" else 6)
    for a in subs:
        for b in subs:
            yield {
                "files": ["a.txt"],
                "nested": [],
                "gens": [
                    {"formats": a, "root": "", "sf": None, "edits": {}},
                    {"formats": b, "root": "", "sf": None, "edits": {}},
                ],
            }
    # a nested history begun after the outer one had recorded its files, among them one with the same relative path as a
    # file of the outer history; and a file that appears later beside a namesake in the other history
    for fa, fb in ((["md5"], ["md5"]), (["xxh64"], ["md5", "xxh64"]), (["c4", "sha1"], ["sha1"])):
        for sf in (None, ["sub/a.txt"]):
            yield {"files": ["a.txt", "sub/a.txt", "sub/b.bin"], "nested": ["sub"], "late": True, "appear": {}, "gens": [
                {"formats": fa, "root": "", "sf": None, "edits": {}}, {"formats": fb, "root": "sub", "sf": sf, "edits": {}},
                {"formats": fa, "root": "", "sf": None, "edits": {}}, {"formats": fb, "root": "", "sf": None, "edits": {"sub/a.txt": "alter"}},
                {"formats": fb, "root": "", "sf": None, "edits": {"sub/a.txt": "restore"}}]}
            for late_file in ("a.txt", "sub/a.txt"):
                yield {"files": ["a.txt", "sub/a.txt", "sub/b.bin"], "nested": ["sub"], "late": False, "appear": {late_file: 2}, "gens": [
                    {"formats": fb, "root": "sub", "sf": None, "edits": {}}, {"formats": fa, "root": "", "sf": None, "edits": {}},
                    {"formats": fa, "root": "", "sf": sf and [late_file], "edits": {}}, {"formats": fb, "root": "", "sf": None, "edits": {late_file: "alter"}}]}
    if tier == "thorough":
        # all 21^3 = 9261 sequences of length 3 over the subsets of size <= 2
        yield from _enum_triples()


def _enum_triples():
    subs = _subsets(2)
    for a in subs:
        for b in subs:
            for c in subs:
                yield {"files": ["a.txt"], "nested": [], "gens": [{"formats": x, "root": "", "sf": None, "edits": {}} for x in (a, b, c)]}


def run_case(scn, ctx):
    files = scn["files"]
    gens = scn["gens"]
    ledger = {}  # (history, file) -> fmt -> first digest   (a file starts afresh in a deeper history created later)
    first_content = {}
    content = {}
    alters = 0
    restores = 0
    fmt_change = any(set(a["formats"]) != set(b["formats"]) for a, b in zip(gens, gens[1:]))
    with World("c04") as w:
        appear = scn.get("appear") or {}
        w.mkdir("R")
        for r_ in scn["nested"] or []:
            w.mkdir("R/" + r_)
        for f in files:
            if not appear.get(f):
                w.put("R/" + f, BASE[f])
                content[f] = content_bytes(BASE[f])
        created = []
        for gi, g in enumerate(gens):
            for f in files:
                if appear.get(f) == gi:
                    w.put("R/" + f, BASE[f])
                    content[f] = content_bytes(BASE[f])
                    ctx.event("file_appears_later")
            for f, e in g["edits"].items():
                if e == "alter":
                    new = content[f] + b"!%d" % gi
                    w.put("R/" + f, new)
                    content[f] = new
                    alters += 1
                elif e == "restore":
                    firsts = [v for (h, ff), v in first_content.items() if ff == f]
                    if firsts and content[f] != firsts[-1]:
                        w.put("R/" + f, firsts[-1])
                        content[f] = firsts[-1]
                        restores += 1
            root = "R" + ("/" + g["root"] if g["root"] else "")
            if g["root"] and g["root"] not in created:
                created.append(g["root"])

            def hist_of(f, created=tuple(created)):
                best = ""
                for r in created:
                    if f.startswith(r + "/") and len(r) > len(best):
                        best = r
                return "R" + ("/" + best if best else "")

            allh = ["R"] + ["R/" + r for r in created]
            scope = [f for f in files if (g["root"] == "" or f.startswith(g["root"] + "/")) and f in content]
            sealed = list(g["sf"]) if g["sf"] else scope
            before = {h: len(w.manifests(h)) for h in allh}
            res = w.create(root, g["formats"], sf=["R/" + s for s in g["sf"]] if g["sf"] else None, sf_spell=g.get("sf_spell"), spell=scn.get("spell", "abs") if g["sf"] else "abs")
            if g.get("sf_spell"):
                ctx.event("sf_path_not_normalised")
            F = sorted(set(g["formats"]))
            altered = [f for f in sealed if (hist_of(f), f) in first_content and content[f] != first_content[(hist_of(f), f)]]
            want_exit = 11 if altered else 0
            require(res.exc is None, "no-abort", "generation %d aborted: %s" % (gi + 1, res.brief()), res)
            require(
                res.exit_code == want_exit,
                "exit-code",
                "generation %d: exit %s, expected %d (altered: %s) %s" % (gi + 1, res.exit_code, want_exit, altered, res.brief()),
                res,
            )
            new_manifests = {}
            for h in allh:
                ms = w.read_history(h)
                if len(ms) == before[h] + 1:
                    new_manifests[h] = ms[-1][2]
            for f in sealed:
                h = hist_of(f)
                require(h in new_manifests, "record-present", "no new generation in %s for %s" % (h, f), res)
                relp = ("R/" + f)[len(h) + 1 :]
                recs = [r for r in new_manifests[h]["records"] if r["kind"] == "file" and r["path"] == relp]
                require(len(recs) == 1, "record-present", "generation %d: %d records for %s" % (gi + 1, len(recs), f), res)
                E = {}
                for e in recs[0]["entries"]:
                    require(e["fmt"] not in E, "record-present", "format %s twice for %s" % (e["fmt"], f), res)
                    E[e["fmt"]] = (e["digest"], e["action"])
                cur = {fm: refhash.digest(fm, content[f]) for fm in E}
                for fm, (d, a) in E.items():
                    require(d == cur[fm], "digest", "%s %s: recorded %s, bytes hash to %s" % (f, fm, d, cur[fm]), res)
                led = ledger.setdefault((h, f), {})
                if not led:
                    require(set(E) == set(F), "first-gen-formats", "%s: recorded %s, requested %s" % (f, sorted(E), F), res)
                    for fm, (d, a) in E.items():
                        require(a == "original", "original-first", "%s %s first recorded with action %r" % (f, fm, a), res)
                    first_content[(h, f)] = content[f]
                    for fm, (d, a) in E.items():
                        led[fm] = d
                    continue
                old = set(led)
                checked = set(E) & old
                newf = set(E) - old
                require(bool(checked), "existing-checked", "%s: no recorded format re-checked (recorded %s, new gen %s)" % (f, sorted(old), sorted(E)), res)
                require((set(F) & old) <= set(E), "existing-checked", "%s: requested recorded formats %s missing from %s" % (f, sorted(set(F) & old), sorted(E)), res)
                any_failed = False
                for fm in checked:
                    d, a = E[fm]
                    want = "verified" if d == led[fm] else "failed"
                    require(a == want, "action", "%s %s gen %d: action %r, expected %r (first digest %s, now %s)" % (f, fm, gi + 1, a, want, led[fm], d), res)
                    any_failed |= want == "failed"
                is_altered = content[f] != first_content[(h, f)]
                require(any_failed == is_altered, "failed-recorded", "%s gen %d: altered=%s but failed entry present=%s" % (f, gi + 1, is_altered, any_failed), res)
                if any_failed:
                    ctx.event("failed_recorded")
                    require(not newf, "no-new-on-failure", "%s gen %d: new formats %s recorded although the check failed" % (f, gi + 1, sorted(newf)), res)
                else:
                    require(newf == set(F) - old, "new-formats", "%s gen %d: new formats %s, expected %s" % (f, gi + 1, sorted(newf), sorted(set(F) - old)), res)
                    for fm in newf:
                        require(E[fm][1] == "verified", "new-verified", "%s %s new format action %r" % (f, fm, E[fm][1]), res)
                        led[fm] = E[fm][0]
                        ctx.event("new_format_added")
        n = len(gens)
        if n >= 3:
            ctx.event("gens>=3")
        if alters:
            ctx.event("alter")
        if restores:
            ctx.event("restore")
        if scn["nested"]:
            ctx.event("nested")
        if len(scn["nested"] or []) >= 3:
            ctx.event("nested_depth>=3")
        if scn.get("late") and any(g["root"] for g in gens):
            ctx.event("nested_history_begun_later")
        if any(g["sf"] for g in gens):
            ctx.event("sf")
        ctx.mark_nontrivial((n >= 3 and fmt_change) or (alters and restores))
        return w.trace

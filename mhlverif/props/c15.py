"""C15 - an interrupted create never damages what was already recorded.

Domain   generated worlds with 0-4 prior generations, flat and nested (so that crashes fall between a child's commit and
         its parent's), then one `create` (folder mode or -sf) that is killed.  The interposed file-system layer
         (fsmon.CrashFS) turns the run into a sequence of operations - mkdir, open (create/truncate), flush (the
         moment buffered bytes reach the disk: explicit flush, close, or a full 8 KiB buffer - write() alone only fills
         the user-space buffer, which a kill discards), close, rename/replace, remove - and ALL crash points of the
         run are enumerated: before every operation (= after the previous one) and, for flushes, with only the
         first half of the bytes applied.  At the crash point a BaseException is raised and every later mutation is refused, so the disk is
         what kill -9 would leave if completed operations are durable and a file holds a prefix of what was written.
         A second variant delivers KeyboardInterrupt at the same points and lets the tool's own clean-up code run
         (Ctrl-C / SIGTERM), so that a well-meant rollback handler is exercised as well.
         Later additions: at every other crash point the follow-up starts with a create that meets altered files; info -v
         among the follow-ups; enumerated final runs that write reference-only or empty-folder generations.
Oracle   after each crash: (1) every previously committed manifest byte-identical; (2) every chain file parses with
         the independent reader and still lists every previously committed generation with its digest; (3) info,
         verify and create run next end with a documented exit code (0/10/11/21/30) - never an uncaught exception,
         31/32/33 or an XML error - and the interrupted generation is absent or completely present (parses,
         schema-valid, and if chained its digest matches).  A self-check (harness error, not violation) compares an
         uninstrumented run with the traced one: every file it wrote must appear in the trace.
"""
import os
import posixpath
import shutil

from hypothesis import strategies as st

from .. import fsmon, gen, hist, refhash, refxml
from ..world import ASC, CHAIN, Violation, World, require

ID = "C15"
LEVEL = "fault_enumeration"
RULE = (
    "generated: world (0-4 prior steps, flat or nested) x one create; every crash point of that run is enumerated (before "
    "each file-system operation; half-applied for each write).  One evaluation = one generated world; the classes "
    "count crash points.  non-trivial = the world has >= 1 prior generation or a nested history (crash points then "
    "fall between commits / after earlier generations); distinct by canonical scenario hash."
)
ASSUMPTIONS = [
    "crash model: completed operations are durable, a file's content is a prefix of what was written, no reordering by the page cache, no torn directory updates (a real power loss can do worse)",
    "all writes of the tool go through builtins.open / os.* (checked by the self-check on every world)",
]
BUDGET = {"quick": (24, 4), "thorough": (2800, 16)}
REQUIRED = ["crash_in_write", "crash_between_child_and_parent", "prior_generations>=2", "first_generation", "crash_points"]
FROZEN = "2022-03-04 05:06:07"
LATER = "2022-03-04 06:06:07"

CFG = {
    "kinds": ["create"] * 5 + ["create_sf"] + ["put_new", "overwrite", "mkdir"],
    "min_steps": 0,
    "max_steps": 4,
    "max_leaves": 6,
    "min_top": 1,
    "flags": {"-n": 0.2},
    "formats": gen.formats(2),
}


@st.composite
def _scn(draw):
    scn = draw(hist.scenarios(CFG))
    m = hist.GenModel(scn["tree"])
    for s in scn["steps"]:
        m.apply(s)
    kind = draw(st.sampled_from(["create", "create", "create", "create_sf"]))
    final = hist.draw_step(draw, m, kind, dict(CFG, nest=False) if not m.roots else CFG) or hist.draw_step(draw, m, "create", CFG)
    if draw(st.booleans()):
        final["root"] = ""
        if final["op"] == "create_sf":
            final = hist.draw_step(draw, m, "create", dict(CFG, nest=False))
            final["root"] = ""
    scn["final"] = final
    if draw(st.integers(0, 7)) == 0:
        scn["root"] = draw(st.sampled_from(["L" * 224, "n" * 220 + "\u00e9\u00e9", "x" * 200, "R" * 227]))
    return scn


def strategy(tier):
    return _scn()


def enumerated(tier):
    """runs that write a reference-only generation into the outer history (create -sf on a file of a nested history, two
    levels deep), an empty-folder generation, and a folder-mode run over three histories"""
    tree = {"top.mov": "t", "reel": {"a.mov": "a", "inner": {"b.mov": "b"}}, "empty": {}}
    pre = [{"op": "create", "root": "reel/inner", "formats": ["md5"], "flags": []}, {"op": "create", "root": "reel", "formats": ["md5"], "flags": []},
           {"op": "create", "root": "", "formats": ["md5"], "flags": []}]
    yield {"root": "R", "tree": tree, "spell": "abs", "steps": pre, "final": {"op": "create_sf", "root": "", "formats": ["md5"], "flags": [], "sf": ["reel/inner/b.mov"]}}
    yield {"root": "R", "tree": tree, "spell": "abs", "steps": pre, "final": {"op": "create", "root": "", "formats": ["md5", "c4"], "flags": ["-n"]}}
    yield {"root": "R", "tree": tree, "spell": "abs", "steps": pre[:1], "final": {"op": "create_sf", "root": "reel", "formats": ["xxh64"], "flags": [], "sf": ["reel/inner"]}}
    yield {"root": "R", "tree": tree, "spell": "abs", "steps": pre, "final": {"op": "create", "root": "empty", "formats": ["md5"], "flags": ["-n"]}}


def kf_first_generation_window(scn, v):
    """F8c: the crash hit the very first generation of a history, after its ascmhl folder was created and before its
    chain file was in place; later commands then stop with exit 32 (chain missing)."""
    x = v.extra or {}
    return bool(x.get("first_generation_window")) and x.get("observed") in ("exit32", "chain-missing")


def _copy(src, dst):
    if os.path.exists(dst):
        shutil.rmtree(dst)
    shutil.copytree(src, dst, symlinks=True)


def run_case(scn, ctx):
    with World("c15") as w:
        hist.setup_world(w, scn)
        top = scn["root"]
        for step in scn["steps"]:
            hist.apply_step(w, scn, step, frozen="2022-01-01 00:00:00")
        work = w.abs(top)
        pristine = w.abs("_pristine")
        _copy(work, pristine)
        final = scn["final"]
        prior_roots = w.history_roots()
        prior_asc = w.asc_files(top)
        prior_gens = {h: len(w.manifests(h)) for h in prior_roots}

        def run_final(fs=None):
            try:
                if fs is None:
                    return hist.apply_step(w, scn, final, frozen=FROZEN)
                with fs:
                    return hist.apply_step(w, scn, final, frozen=FROZEN)
            except (fsmon.CrashNow, KeyboardInterrupt):
                return None

        # reference run, uninstrumented
        ref = run_final()
        if ref is None or ref.exc is not None or ref.exit_code not in (0, 10, 11):
            ctx.event("final_create_not_applicable")
            return w.trace
        ref_files = w.asc_files(top)
        _copy(pristine, work)
        # traced run
        fs = fsmon.CrashFS(w.base)
        traced = run_final(fs)
        if traced is None or w.asc_files(top) != ref_files:
            raise AssertionError("self-check: traced run differs from the uninstrumented run")
        seen = fs.targets
        for p, data in ref_files.items():
            if prior_asc.get(p) != data and p not in seen:
                raise AssertionError("self-check: %r was written but never seen by the interposed layer (uninstrumented write path)" % p)
        ops = fs.ops
        points = []
        for k, (kind, path, n) in enumerate(ops):
            if kind in ("mkdir", "open", "flush", "close", "rename", "replace", "remove", "unlink", "truncate"):
                points.append((k, "before"))
                points.append((k, "interrupt"))
            if kind == "flush" and n >= 2:
                points.append((k, "half"))
        points.append((len(ops), "before"))  # nothing left to do: the complete run
        new_roots = [h for h in w.history_roots() if h not in prior_roots]
        # which histories commit, in order (a child before its parent)
        commit_order = []
        for kind, path, n in ops:
            if kind == "open" and (path.endswith(".mhl") or path.endswith(".mhl.partial") or path.endswith("/ascmhl_manifest.partial")):
                commit_order.append(posixpath.dirname(posixpath.dirname(path)))
        nested_run = len(commit_order) >= 2

        for (k, variant) in points:
            _copy(pristine, work)
            fs = fsmon.CrashFS(w.base, crash_at=(k, variant))
            r = run_final(fs)
            ctx.event("crash_points")
            if variant == "half":
                ctx.event("crash_in_write")
            if variant == "interrupt":
                ctx.event("interrupt_points")
            done_opens = [p for kind, p, n in ops[:k] if kind == "open"]
            closed_chains = [p for kind, p, n in ops[:k] if (kind == "close" and p.endswith(CHAIN)) or (kind == "replace" and p.endswith(CHAIN + ".partial"))]
            if nested_run and closed_chains and len(closed_chains) < len(commit_order):
                ctx.event("crash_between_child_and_parent")
            label = "crash %s op %d/%d %r" % ({"before": "kill before", "half": "kill half-way through", "interrupt": "interrupt (clean-up may run) at"}[variant], k, len(ops), ops[k] if k < len(ops) else "end")
            # which history is in its first-generation window at this point?
            fgw = False
            for h in new_roots:
                ad = h + "/" + ASC
                made = any(kind == "mkdir" and p == ad for kind, p, n in ops[:k])
                chain_closed = any((kind == "close" and p == ad + "/" + CHAIN) or (kind == "replace" and p == ad + "/" + CHAIN + ".partial") for kind, p, n in ops[:k])
                if made and not chain_closed:
                    fgw = True
            if new_roots:
                ctx.event("first_generation")
            try:
                check_after_crash(w, top, final, scn, prior_asc, prior_gens, label, ctx, fgw, alter_first=(k % 2 == 1))
            except Violation as v:
                v.extra = dict(v.extra or {}, first_generation_window=fgw)
                if ctx.known_inline(scn, v) is None:
                    raise
        if any(n >= 2 for n in prior_gens.values()):
            ctx.event("prior_generations>=2")
        ctx.mark_nontrivial(bool(prior_gens) or nested_run)
        return w.trace


def check_after_crash(w, top, final, scn, prior_asc, prior_gens, label, ctx, fgw, alter_first=False):
    now = w.asc_files(top)
    # (1) previously committed manifests untouched
    for p, data in prior_asc.items():
        if p.endswith(".mhl"):
            require(now.get(p) == data, "old-manifest-intact", "%s: previously committed %s %s" % (label, p, "removed" if p not in now else "changed"))
    # (2) chains parse and keep every earlier generation
    for p, data in prior_asc.items():
        if not p.endswith(CHAIN):
            continue
        old = refxml.read_chain(data)
        v = None
        if p not in now:
            v = Violation("chain-intact", "%s: chain %s vanished" % (label, p))
            v.extra = {"observed": "chain-missing"}
            raise v
        try:
            cur = refxml.read_chain(now[p])
        except Exception as e:
            raise Violation("chain-intact", "%s: chain %s no longer parses: %s" % (label, p, e))
        require(cur[: len(old)] == old, "chain-intact", "%s: chain %s lost earlier generations: %r -> %r" % (label, p, old, cur))
    # (3) the interrupted generation is absent or completely present
    for p, data in now.items():
        if p in prior_asc or not p.endswith(".mhl"):
            continue
        h = posixpath.dirname(posixpath.dirname(p))
        try:
            refxml.read_manifest(data)
        except Exception as e:
            raise Violation("half-present", "%s: new manifest %s is on disk under its final name but does not parse: %s" % (label, p, str(e)[:120]))
        ok, msg = refxml.xsd_validate(w.abs(p), "manifest", ctx.repo)
        require(ok, "half-present", "%s: new manifest %s present but not schema-valid: %s" % (label, p, msg))
        cp = h + "/" + ASC + "/" + CHAIN
        if cp in now:
            try:
                ents = [e for e in refxml.read_chain(now[cp]) if e["path"] == posixpath.basename(p)]
            except Exception:
                ents = []
            for e in ents:
                require(e["digest"] == refhash.digest("c4", data), "half-present", "%s: chain digest of %s does not match the file" % (label, p))
    # next commands
    target = hist.wpath(scn, final["root"])
    order = ("info", "info_v", "verify", "create_short", "info", "create", "info_v")
    if alter_first:
        # at every other crash point the first thing that happens afterwards is a create that meets altered files -
        # those first recorded by the interrupted generation (if its manifest made it to disk) and an older one
        import os as _os

        prior_paths = set()
        for p, data in prior_asc.items():
            if p.endswith(".mhl"):
                h = posixpath.dirname(posixpath.dirname(p))
                prior_paths |= {h + "/" + r["path"] for r in refxml.read_manifest(data)["records"] if r["kind"] == "file"}
        media = [f for f in w.media_files(target) if _os.path.isfile(w.abs(f))]
        fresh = [f for f in media if f not in prior_paths]
        for f in fresh[:2] + [f for f in media if f in prior_paths][:1]:
            with open(w.abs(f), "ab") as fh:
                fh.write(b" altered after the crash")
            ctx.event("altered_before_next_create")
        order = ("create", "info_v", "verify", "create_short", "info")
    for cmd in order:
        if cmd in ("info", "info_v"):
            res = w.info(target, frozen=LATER, flags=["-v"] if cmd == "info_v" else [])
            allowed = (0, 30)
        elif cmd == "create_short":
            # a later run whose manifest is shorter than the interrupted one (fewer formats): leftovers must not leak into it
            res = w.create(target, final["formats"][:1], flags=["-n"], frozen=LATER)
            allowed = (0, 10, 11)
        elif cmd == "verify":
            res = w.verify(target, frozen=LATER)
            allowed = (0, 10, 11, 21, 30)
        else:
            res = w.create(target, list(final["formats"]) + [f for f in ("md5", "sha1", "c4") if f not in final["formats"]][:2], frozen=LATER)
            allowed = (0, 10, 11)
        if res.exc is not None or res.exit_code not in allowed:
            v = Violation("next-command", "%s: afterwards `%s` does not load the history normally: %s" % (label, cmd, res.brief()), res)
            v.extra = {"observed": "exit%s" % res.exit_code if res.exc is None else res.exc_type}
            raise v

"""C13 - results do not depend on where the tree is mounted or how the OS lists it.

Domain   a generated tree + nested layout + sequence of 1-4 creates (any directory, formats, -n, -i pattern) under a
         frozen clock, executed at two absolute locations: A (neutral ancestors, sorted listing, absolute invocation)
         and B whose ancestor folders are generated (plain, with spaces / non-ASCII, named 'ascmhl', '.DS_Store', or
         matching the scenario's own -i pattern), invoked absolutely, with trailing slash, relatively or as '.',
         and with os.listdir / os.scandir (hence os.walk) returning a generated permutation.  Before every create
         the harness re-applies identical modification times to all media files and directories at both places.
         Later additions: -sf runs that reach files twice; content of a renamed file copied to further new files; two
         sibling histories damaged differently (same exit code under every listing order); the relocated copy verified
         file by file from inside the original tree and with its root typed as '.' and './name'.
Oracle   byte equality of every file of every ascmhl folder between A and B after every step (same relative
         names); a sealed tree copied to a third generated location verifies there with exit 0.  Finally, with two
         sibling child histories damaged in different ways (31 / 32), verify / diff / info on their parent must end with
         the same exit code under every enumeration order.
"""
import os
import random
import shutil
from unittest import mock

from hypothesis import strategies as st

from .. import gen, hist
from ..world import World, require

ID = "C13"
LEVEL = "exploration"
RULE = (
    "generated: (tree, create sequence, ancestor names of location B, invocation form, listing permutation); oracle = "
    "byte-identical ascmhl folders at both locations + verify 0 on a relocated copy. non-trivial = >= 2 sibling nested "
    "histories below one parent (reference order matters) or an ancestor name matching an effective ignore pattern; "
    "distinct by canonical scenario hash."
)
ASSUMPTIONS = [
    "enumeration order is permuted at the Python os layer (os.listdir / os.scandir); file systems returning different names (normalisation, case folding) are outside the domain",
    "clock frozen with freezegun; host name identical (same process)",
]
BUDGET = {"quick": (160, 4), "thorough": (16000, 16)}
REQUIRED = ["sibling_histories", "ancestor_matches_pattern", "ancestor_ascmhl", "relative_invocation", "trailing_slash", "dot_invocation", "relocated_verify", "ancestor_glob_chars", "case_colliding_siblings", "create_sf", "rename_recorded_with_dr", "two_refused_children", "rename_with_duplicate_content", "relocated_verify_single_file", "sf_run_with_overlapping_selection"]

CFG = {
    "kinds": ["create"] * 8 + ["create_sf"] * 2 + ["put_new", "mkdir"],
    "min_steps": 1,
    "max_steps": 4,
    "flags": {"-n": 0.15},
    "max_leaves": 12,
    "min_top": 2,
    "sf_overlap": True,
    "sf_root": True,
}
FROZEN = "2021-06-01 10:20:30"
MT = 1500000000


@st.composite
def _scn(draw):
    scn = draw(hist.scenarios(CFG))
    tree_extra = draw(st.integers(0, 2))
    if tree_extra:
        # make sibling histories likely
        sibs = []
        used = hist.top_names_used(scn)
        for n in ("sibA", "sibB", "sibC")[: tree_extra + 1]:
            if n not in used:
                scn["tree"][n] = {"f": "c-" + n}
                sibs.append(n)
        pre = [{"op": "create", "root": n, "formats": draw(gen.formats(2)), "flags": []} for n in draw(st.permutations(sibs))]
        scn["steps"] = pre + scn["steps"]
    if draw(st.integers(0, 2)) == 0:
        # siblings whose names differ only in case (files, folders, and folders with a history of their own)
        used = hist.top_names_used(scn)
        if not ({"Clip.mov", "clip.mov", "CLIP.MOV", "Cards"} & used):
            scn["tree"]["Clip.mov"] = "one"
            scn["tree"]["clip.mov"] = "two"
            scn["tree"]["CLIP.MOV"] = "three"
            scn["tree"]["Cards"] = {"a01": {"x": "1"}, "A01": {"x": "2"}, "a01.txt": "f", "A01.TXT": "g"}
            if draw(st.booleans()):
                scn["steps"] = [{"op": "create", "root": r, "formats": ["md5"], "flags": []} for r in draw(st.permutations(["Cards/a01", "Cards/A01"]))] + scn["steps"]
            scn["case_twins"] = True
    scn["steps"].append({"op": "create", "root": "", "formats": draw(gen.formats(2)), "flags": []})
    if draw(st.integers(0, 2)) == 0 and not ({"ovl"} & hist.top_names_used(scn)):
        # one -sf run that reaches several files twice (a folder and files inside it, a file named twice)
        scn["tree"]["ovl"] = {"a.mov": "oa", "b.mov": "ob", "c": {"d.mov": "od", "e.mov": "oe"}}
        scn["steps"].append({"op": "create_sf", "root": "", "formats": draw(gen.formats(2)), "flags": [], "sf": draw(st.sampled_from([["ovl", "ovl/b.mov", "ovl/c/e.mov"], ["ovl/c/d.mov", "ovl/a.mov", "ovl/c", "ovl/a.mov"], ["ovl/a.mov", "ovl"]]))})
        scn["sf_overlap_run"] = True
    if draw(st.integers(0, 2)) == 0 and "renameme.mov" not in hist.top_names_used(scn):
        # a file with content of its own is sealed, renamed, and the rename recorded with -dr
        fm = draw(gen.formats(2))
        scn["steps"] += [{"op": "put_new", "path": "renameme.mov", "spec": "only this file has this content"}, {"op": "create", "root": "", "formats": fm, "flags": []},
                         {"op": "mv", "src": "renameme.mov", "dst": "renamed.mov"}]
        if draw(st.booleans()) and not ({"renamed copy.mov", "zz"} & hist.top_names_used(scn)):
            # ... and copied as well: two new files carry the content of the one that is gone
            scn["steps"] += [{"op": "put_new", "path": "renamed copy.mov", "spec": "only this file has this content"}, {"op": "put_new", "path": "zz/a third copy.mov", "spec": "only this file has this content"}]
            scn["rename_dup"] = True
        scn["steps"] += [{"op": "create", "root": "", "formats": fm, "flags": ["-dr"]}]
        scn["rename_dr"] = True
    pat = draw(st.sampled_from([None, None, "tmp*", "*.bak", "cache", "cache/"]))
    scn["pattern"] = pat
    matching = {"tmp*": "tmpstore", "*.bak": "old.bak", "cache": "cache", "cache/": "cache"}.get(pat)
    anc_pool = ["plain", "with space", "ünï-ço", "ascmhl", ".DS_Store", "xascmhl", "RAID [backup]", "Offload [day 1]", "x[!a]y", "st*r", "wh?t"] + ([matching] * 3 if matching else [])
    scn["ancestors"] = draw(st.lists(st.sampled_from(anc_pool), min_size=1, max_size=3))
    scn["form"] = draw(st.sampled_from(["abs", "abs", "slash", "rel", "dot"]))
    scn["perm"] = draw(st.integers(0, 2**31))
    return scn


def strategy(tier):
    return _scn()


class _Scan:
    def __init__(self, entries):
        self._it = iter(entries)

    def __iter__(self):
        return self

    def __next__(self):
        return next(self._it)

    def __enter__(self):
        return self

    def __exit__(self, *a):
        return False

    def close(self):
        pass


def permuted_listing(seed):
    """seed None: sorted listing (location A); seed % 3 == 0: reverse-sorted; otherwise a seeded shuffle"""
    rnd = random.Random(seed)
    real_listdir, real_scandir = os.listdir, os.scandir

    def order(items, key):
        items.sort(key=key)
        if seed is None:
            return items
        if seed % 3 == 0:
            items.reverse()
        else:
            rnd.shuffle(items)
        return items

    def listdir(path="."):
        return order(real_listdir(path), lambda n: n)

    def scandir(path="."):
        with real_scandir(path) as it:
            entries = list(it)
        return _Scan(order(entries, lambda e: e.name))

    return mock.patch.multiple(os, listdir=listdir, scandir=scandir)


def set_mtimes(w, top):
    for p in sorted(w.files) + sorted(w.dirs):
        if w.under(p, top) and "ascmhl" not in p[len(top):].split("/"):
            os.utime(w.abs(p), (MT, MT))


def run_case(scn, ctx):
    feats = set()
    rootname = scn["root"]
    locA = "locA/" + rootname
    locB = "/".join(scn["ancestors"]) + "/" + rootname
    pat = scn["pattern"]
    with World("c13") as w:
        sA = dict(scn, root=locA)
        sB = dict(scn, root=locB)
        w.build(locA, scn["tree"])
        w.build(locB, scn["tree"])
        extra = ["-i", pat] if pat else []
        for step in scn["steps"]:
            if step["op"] not in ("create", "create_sf"):
                hist.apply_step(w, sA, step)
                hist.apply_step(w, sB, step)
                continue
            set_mtimes(w, locA)
            set_mtimes(w, locB)
            st_ = dict(step, extra=extra)
            with permuted_listing(None):
                rA = hist.apply_step(w, sA, st_, frozen=FROZEN)
            target = hist.wpath(sB, step["root"])
            args = []
            for f in step["formats"]:
                args += ["-h", f]
            args += list(step.get("flags", ())) + extra
            for sfp in step.get("sf", ()) or ():
                args += ["-sf", w.abs(hist.wpath(sB, sfp))]
            if step["op"] == "create_sf":
                feats.add("create_sf")
            form = scn["form"]
            cwd = None
            if form == "abs":
                a0 = w.abs(target)
            elif form == "slash":
                a0 = w.abs(target) + "/"
                feats.add("trailing_slash")
            elif form == "rel":
                cwd = os.path.dirname(w.abs(target))
                a0 = os.path.basename(w.abs(target))
                if a0.startswith("-"):
                    a0 = "./" + a0  # (what a user has to type for a folder whose name looks like an option)
                feats.add("relative_invocation")
            else:
                cwd = w.abs(target)
                a0 = "."
                feats.add("dot_invocation")
            with permuted_listing(scn["perm"]):
                rB = w.run("create", [a0] + args, cwd=cwd, frozen=FROZEN)
            require(rA.exc is None and rA.exit_code in (0, 11), "setup", "location A: " + rA.brief(), rA)
            require(rB.exc is None, "no-abort", "location B: " + rB.brief(), rB)
            require(rB.exit_code == rA.exit_code, "same-exit", "A: %s / B: %s" % (rA.brief(), rB.brief()), rB)
            fa = {p[len(locA):]: b for p, b in w.asc_files(locA).items()}
            fb = {p[len(locB):]: b for p, b in w.asc_files(locB).items()}
            require(set(fa) == set(fb), "same-files", "ascmhl files differ: only A %s, only B %s (B at %r, form %s)" % (sorted(set(fa) - set(fb))[:4], sorted(set(fb) - set(fa))[:4], locB, form), rB)
            for p in sorted(fa):
                if fa[p] != fb[p]:
                    la, lb = fa[p].decode("utf-8", "replace").splitlines(), fb[p].decode("utf-8", "replace").splitlines()
                    diff = next(((x, y) for x, y in zip(la, lb) if x != y), (len(la), len(lb)))
                    require(False, "same-bytes", "%s differs between locations (B at %r, form %s, permuted listing): first difference %r" % (p, locB, form, diff), rB)
        roots = w.history_roots()
        rootsA = [r for r in roots if w.under(r, locA)]
        for a in rootsA:
            kids = [r for r in rootsA if r != a and w.deepest_root(r, rootsA, for_dir_entry=True) == a]
            if len(kids) >= 2:
                feats.add("sibling_histories")
        if scn.get("case_twins"):
            feats.add("case_colliding_siblings")
        if scn.get("rename_dr"):
            feats.add("rename_recorded_with_dr")
        if "ascmhl" in scn["ancestors"]:
            feats.add("ancestor_ascmhl")
        if any(c in a for a in scn["ancestors"] for c in "[*?"):
            feats.add("ancestor_glob_chars")
        import fnmatch

        if any(a in ("ascmhl", ".DS_Store") or (pat and fnmatch.fnmatchcase(a, pat.rstrip("/"))) for a in scn["ancestors"]):
            feats.add("ancestor_matches_pattern")
        # relocate a copy and verify there
        third = "moved/" + "/".join(reversed(scn["ancestors"])) + "/elsewhere"
        os.makedirs(os.path.dirname(w.abs(third)), exist_ok=True)
        shutil.copytree(w.abs(locA), w.abs(third))
        res = w.verify(third)
        require(res.exc is None and res.exit_code == 0, "relocated-verify", "copy of the sealed tree at %r: %s\n%s" % (third, res.brief(), res.output[-300:]), res)
        feats.add("relocated_verify")
        # ... however the copy's root is typed: from inside it as ".", from its parent as "./name"
        for a0, cwd in ((".", w.abs(third)), ("./" + os.path.basename(w.abs(third)), os.path.dirname(w.abs(third)))):
            for cmd in ("verify", "diff"):
                res = w.run(cmd, [a0], cwd=cwd)
                require(res.exc is None and res.exit_code == 0, "relocated-verify", "%s %s on the copy at %r (cwd %r): %s\n%s" % (cmd, a0, third, w.rel(cwd), res.brief(), res.output[-300:]), res)
        # ... also file by file, each named relative to the copy's root, while the working directory is the original tree
        # (where a file of the same relative name exists, too)
        import fnmatch as _fn

        rel_files = [f[len(locA) + 1:] for f in w.media_files(locA)]
        rel_files = [rf for rf in rel_files if not (pat and any(_fn.fnmatchcase(c, pat.rstrip("/")) for c in rf.split("/")))][:3]
        for rf in rel_files:
            if rf.startswith("-"):
                continue
            res = w.run("verify", [w.abs(third), "-sf", rf], cwd=w.abs(locA))
            require(res.exc is None and res.exit_code == 0, "relocated-verify", "verify -sf %r on the copy at %r, started inside the original tree: %s\n%s" % (rf, third, res.brief(), res.output[-300:]), res)
            feats.add("relocated_verify_single_file")
        # two sibling histories refused for different reasons (one manifest edited: 31, one chain file gone: 32): which of
        # them decides the exit code of a command on their parent must not depend on the enumeration order either
        pair = None
        for a in rootsA:
            kids = sorted(r for r in rootsA if r != a and w.deepest_root(r, rootsA, for_dir_entry=True) == a)
            if len(kids) >= 2:
                pair = (a, kids[scn["perm"] % len(kids)], kids[(scn["perm"] + 1) % len(kids)])
                break
        if pair:
            a, k1, k2 = pair
            for loc in (locA, locB):
                m1 = w.manifests(loc + k1[len(locA):])[-1][1]
                with open(w.abs(m1), "ab") as fh:
                    fh.write(b" ")
                os.remove(w.abs(loc + k2[len(locA):] + "/ascmhl/ascmhl_chain.xml"))
            for cmd in ("verify", "diff", "info"):
                with permuted_listing(None):
                    rA = w.run(cmd, [w.abs(a)])
                outs = []
                for seed in (scn["perm"], 0, 1):
                    with permuted_listing(seed):
                        outs.append(w.run(cmd, [w.abs(locB + a[len(locA):])]))
                require(rA.exit_code in (31, 32) and rA.exc is None, "refused", "A: " + rA.brief(), rA)
                for rB in outs:
                    require(rB.exit_code == rA.exit_code, "same-exit-refused", "%s with two damaged child histories (%r edited, %r without chain): exit %s with sorted listing, %s with another enumeration order" % (cmd, k1[len(locA):], k2[len(locA):], rA.exit_code, rB.exit_code), rB)
            feats.add("two_refused_children")
        if scn.get("rename_dup"):
            feats.add("rename_with_duplicate_content")
        if scn.get("sf_overlap_run"):
            feats.add("sf_run_with_overlapping_selection")
        for f in feats:
            ctx.event(f)
        ctx.mark_nontrivial("sibling_histories" in feats or "ancestor_matches_pattern" in feats)
        return w.trace

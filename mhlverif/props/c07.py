"""C07 - directory hashes follow the compositional definition.

Domain   generated trees (depth <= 5, empty directories, equal-content siblings, names from the full alphabet, ignored
         .DS_Store entries) x non-empty subsets of the six formats; then an in-place rename of a file or folder or a
         content edit; a permuted enumeration order of directory entries.
         Later additions: `-co -ro` prints the root hash alone; `verify -dh -co` on the changed tree while the history is
         present; a format named twice with -h; anchored patterns ('/name') with a deeper namesake that stays in.
Oracle   refhash.dirhash - the definition evaluated over a nested dict with hashlib/xxhash and our own c4 codec
         (anchored by the literal vectors of the repository's tests, replayed in the regression tier) - compared with
         every <directoryhash>/<roothash> written by create in every requested format and with the lines printed
         by `verify -dh -co`; independently of that model the metamorphic clauses of the statement are checked on
         the tool's own outputs (rename: content hash unchanged, structure hash changed, for the root and every
         ancestor; content edit: both change on the path to the root and nowhere else; permuted listing: identical).
"""
import os
import posixpath
import random
import re
from unittest import mock

from hypothesis import strategies as st

from .. import gen, refhash, refxml
from ..world import World, content_bytes, require

ID = "C07"
LEVEL = "exploration"
RULE = (
    "generated: tree x format subset x one metamorphic change (rename file/folder in place, or edit a file) x listing "
    "permutation; oracle = reference directory-hash model + metamorphic relations. non-trivial = depth >= 2 with a "
    "directory of >= 2 children, and (>= 2 formats or c4 requested); distinct by canonical scenario hash."
)
ASSUMPTIONS = ["no hash collisions among the generated inputs", "digest texts are sorted as text (the order the definition's 'sorted' refers to)"]
BUDGET = {"quick": (300, 4), "thorough": (90000, 16)}
REQUIRED = ["rename_file", "rename_dir", "edit", "c4", "multi_format", "empty_dir", "ignored_entry", "permuted", "nested_history", "user_pattern", "path_pattern_depth>=2", "edited_file_new_format", "printed_on_failing_tree", "anchored_pattern_with_deeper_namesake"]


@st.composite
def _scn(draw):
    tree = draw(gen.trees("full", max_leaves=14, min_top=1))
    fmts = draw(gen.format_sets(3))
    if draw(st.integers(0, 4)) == 0:
        fmts = fmts + [fmts[0]]  # -h may name a format twice
    files = gen.tree_files(tree)
    dirs = gen.tree_dirs(tree)
    change = None
    kinds = []
    if files:
        kinds += ["rename_file", "edit"]
    if dirs:
        kinds += ["rename_dir", "rename_dir"]
    if kinds:
        k = draw(st.sampled_from(kinds))
        if k == "edit":
            change = {"kind": k, "path": draw(st.sampled_from(files))}
        else:
            src = draw(st.sampled_from(files if k == "rename_file" else dirs))
            change = {"kind": k, "path": src, "new": draw(gen.names())}
    ignore = draw(st.one_of(st.none(), st.sampled_from(_ignore_candidates(tree)))) if _ignore_candidates(tree) else None
    if ignore and ignore.startswith("/") and dirs:
        # the anchored name exists once more, deeper in the tree: that entry is not excluded
        d = draw(st.sampled_from(dirs))
        node = tree
        for part in d.split("/"):
            node = node[part]
        if isinstance(node, dict) and not (d + "/").startswith(ignore[1:] + "/"):
            node.setdefault(ignore[1:], "same name as the anchored pattern, but deeper")
    return {
        "tree": tree,
        "formats": fmts,
        "change": change,
        "perm": draw(st.integers(0, 2**32)),
        "dsstore": draw(st.sampled_from([None, None, "", "sub"])),
        "nest": draw(st.one_of(st.none(), st.sampled_from(dirs))) if dirs else None,
        # one literal ignore pattern: a root-relative path of an entry at depth >= 2, '/'-anchored top-level name, or a base name
        "ignore": ignore,
    }


_SAFE = set("abcdefghijklmnopqrstuvwxyzABCDEFGHIJKLMNOPQRSTUVWXYZ0123456789._-")


def _ignore_candidates(tree):
    out = []
    for p in gen.tree_files(tree) + gen.tree_dirs(tree):
        parts = p.split("/")
        if not all(set(c) <= _SAFE and c[0] not in ".-" for c in parts):
            continue  # literal-safe names only, so that the pattern means exactly this path
        if len(parts) >= 2:
            out.append(p)
        else:
            out.append("/" + p)
    return out + [c for c in out if "/" in c.strip("/")] * 4


def _without(tree, pattern):
    """the tree minus the entry a literal pattern ('a/b/c' or '/a', both relative to the root) names"""
    parts = pattern.strip("/").split("/")

    def rec(node, i):
        out = {}
        for n, c in node.items():
            if n == parts[i]:
                if i == len(parts) - 1:
                    continue
                if isinstance(c, dict):
                    out[n] = rec(c, i + 1)
                    continue
            out[n] = c
        return out

    return rec(tree, 0)


def strategy(tier):
    return _scn()


def enumerated(tier):
    # anchors for the reference model itself: the vectors pinned by tests/test_dirhash.py and tests/test_create.py
    yield {
        "tree": {"Stuff.txt": "stuff\n", "A": {"A1.txt": "A1\n"}},
        "formats": ["xxh64"],
        "change": None,
        "perm": 0,
        "dsstore": None,
        "pinned": {"": ["ca56d22f064fdf1b", "2ccca3899111eabb"], "A": ["d3904ee76bba3d2a", "3fbe33b2924e26aa"]},
    }
    yield {
        "tree": {
            "Stuff.txt": "stuff\n",
            "A": {"A1.txt": "A1\n", "A2.txt": "A2\n", "AA": {"AA1.txt": "AA1\n"}},
            "B": {"B1.txt": "B1\n"},
            "emptyFolderA": {},
            "emptyFolderB": {},
            "emptyFolderC": {"emptyFolderCA": {}, "emptyFolderCB": {}},
        },
        "formats": ["xxh64"],
        "change": None,
        "perm": 0,
        "dsstore": None,
        "pinned": {"": ["4ccac5e6856ecf04", None], "A": ["cc195301a14023a9", None], "emptyFolderA": ["ef46db3751d8e999", None],
                   "emptyFolderC": ["cf4b060700272aa6", "949018e6a4932905"]},
    }


    # an anchored pattern with namesakes below the root level (a file and a folder), and formats named twice
    for pat in ("/notes.txt", "/Proxies"):
        for fm in (["md5"], ["xxh64", "md5", "xxh64"], ["c4", "c4"]):
            yield {"tree": {"notes.txt": "top", "Proxies": {"p.mov": "p"}, "Clips": {"notes.txt": "deeper", "Proxies": {"q.mov": "q"}, "Day1": {"notes.txt": "deepest"}}},
                   "formats": fm, "change": {"kind": "edit", "path": "Clips/notes.txt"}, "perm": 7, "dsstore": None, "nest": None, "ignore": pat}


def _to_bytes(tree):
    return {n: (_to_bytes(c) if isinstance(c, dict) else content_bytes(c)) for n, c in tree.items()}


def manifest_table(doc):
    """{fmt: {relpath: (content, structure)}} from a manifest read with the independent reader"""
    out = {}
    for rec in doc["records"]:
        if rec["kind"] == "dir":
            for e in rec["entries"]:
                out.setdefault(e["fmt"], {})[rec["path"]] = (e["digest"], e["structure"])
    for e in doc["roothash"] or []:
        out.setdefault(e["fmt"], {})[""] = (e["digest"], e["structure"])
    return out


_DIR_LINE = re.compile(r"^  calculated directory hash for (.*)  (\w+): (\S+) \(content\), (\S+) \(structure\)$")
_ROOT_LINE = re.compile(r"^  calculated root hash  (\w+): (\S+) \(content\), (\S+) \(structure\)$")


def printed_table(stdout):
    out = {}
    for l in stdout.split("\n"):
        m = _ROOT_LINE.match(l)
        if m:
            out.setdefault(m.group(1), {})[""] = (m.group(2), m.group(3))
            continue
        m = _DIR_LINE.match(l)
        if m:
            out.setdefault(m.group(2), {})[m.group(1)] = (m.group(3), m.group(4))
    return out


def seal_and_read(w, root, fmts, res_holder, perm=None):
    if perm is None:
        res = w.create(root, fmts)
    else:
        real = os.listdir
        rnd = random.Random(perm)

        def shuffled(path="."):
            names = real(path)
            rnd.shuffle(names)
            return names

        with mock.patch("os.listdir", shuffled):
            res = w.create(root, fmts)
    res_holder.append(res)
    require(res.exc is None and res.exit_code == 0, "create", "create failed: " + res.brief(), res)
    n, p, doc = w.read_history(root)[-1]
    return manifest_table(doc)


def compare(tab, ref, fmts, clause, res, what):
    for f in fmts:
        require(f in tab, clause, "%s: no directory hashes in format %s" % (what, f), res)
        got = tab[f]
        require(set(got) == set(ref[f]), clause, "%s %s: directories %s, expected %s" % (what, f, sorted(got), sorted(ref[f])), res)
        for d, (c, s) in ref[f].items():
            require(got[d] == (c, s), clause, "%s %s dir %r: tool %r, definition %r" % (what, f, d, got[d], (c, s)), res)


def run_case(scn, ctx):
    fmts = scn["formats"]
    tree = _to_bytes(scn["tree"])
    ref = {f: refhash.dirhash(tree, f)[2] for f in fmts}
    holder = []
    with World("c07") as w:
        w.build("R", scn["tree"])
        if scn.get("pinned"):
            for d, (c, s) in scn["pinned"].items():
                got = ref["xxh64"][d]
                if got[0] != c or (s is not None and got[1] != s):
                    raise AssertionError("reference model disagrees with the repository's pinned vector for %r: %r vs %r" % (d, got, (c, s)))
        if scn["dsstore"] is not None:
            dirs = sorted(w.dirs)
            target = "R" if scn["dsstore"] == "" or len(dirs) < 2 else dirs[-1]
            w.put(target + "/.DS_Store", "finder")
            ctx.event("ignored_entry")
        # printed by verify -dh -co on the unsealed tree, per format
        for f in fmts:
            res = w.verify("R", flags=["-dh", "-co", "-h", f])
            require(res.exc is None and res.exit_code == 0, "printed", "verify -dh -co -h %s: %s" % (f, res.brief()), res)
            compare(printed_table(res.stdout), ref, [f], "printed", res, "verify -dh -co")
            # -ro: the root hash alone, same value
            res = w.verify("R", flags=["-dh", "-co", "-ro", "-h", f])
            require(res.exc is None and res.exit_code == 0, "printed", "verify -dh -co -ro -h %s: %s" % (f, res.brief()), res)
            tab = printed_table(res.stdout)
            require(tab.get(f, {}) == {"": ref[f][""]}, "printed-root-only", "verify -dh -co -ro %s prints %r, definition of the root hash %r" % (f, tab.get(f), ref[f][""]), res)
        tab1 = seal_and_read(w, "R", fmts, holder)
        compare(tab1, ref, fmts, "manifest", holder[-1], "create")
        # second generation (ascmhl folder now present and ignored): same hashes
        tab2 = seal_and_read(w, "R", fmts, holder)
        compare(tab2, ref, fmts, "manifest-gen2", holder[-1], "second create")

        # a nested history inside the tree: the child's manifest and the parent's entry for the nested root must
        # both carry the definition's hashes of that sub-tree, in every format
        if scn.get("nest"):
            w.build("N", scn["tree"])
            child = "N/" + scn["nest"]
            res = w.create(child, fmts[:1])
            holder.append(res)
            require(res.exc is None and res.exit_code == 0, "create", "nested create failed: " + res.brief(), res)
            tabn = seal_and_read(w, "N", fmts, holder)
            cdoc = w.read_history(child)[-1][2]
            ctab = manifest_table(cdoc)
            # merge the child's records (relative to the child) into the parent's table
            for f in fmts:
                require(f in ctab, "nested-child", "child manifest has no directory hashes in %s" % f, holder[-1])
                for d, v in ctab[f].items():
                    full = scn["nest"] + ("/" + d if d else "")
                    if d == "":
                        require(tabn[f].get(full) == v, "nested-root-entry", "%s: parent records %r for nested root %r, child's root hash is %r" % (f, tabn[f].get(full), full, v), holder[-1])
                    tabn[f][full] = v
            compare(tabn, ref, fmts, "nested", holder[-1], "create over a nested history")
            ctx.event("nested_history")

        # a user pattern: directory hashes are the definition over exactly the non-ignored entries
        if scn.get("ignore"):
            pat = scn["ignore"]
            w.build("I", scn["tree"])
            reft = {f: refhash.dirhash(_to_bytes(_without(scn["tree"], pat)), f)[2] for f in fmts}
            for f in fmts[:2]:
                res = w.verify("I", flags=["-dh", "-co", "-h", f, "-i", pat])
                require(res.exc is None and res.exit_code == 0, "ignored-printed", "verify -dh -co -i %s: %s" % (pat, res.brief()), res)
                compare(printed_table(res.stdout), reft, [f], "ignored-printed", res, "verify -dh -co -i %r" % pat)
            res = w.create("I", fmts, extra=["-i", pat])
            holder.append(res)
            require(res.exc is None and res.exit_code == 0, "create", "create -i failed: " + res.brief(), res)
            compare(manifest_table(w.read_history("I")[-1][2]), reft, fmts, "ignored-manifest", res, "create -i %r" % pat)
            ctx.event("user_pattern")
            if pat.startswith("/") and any(p.split("/")[-1] == pat[1:] and "/" in p for p in gen.tree_files(scn["tree"]) + gen.tree_dirs(scn["tree"])):
                ctx.event("anchored_pattern_with_deeper_namesake")
            if "/" in pat.strip("/"):
                ctx.event("path_pattern_depth>=2")

        # permuted enumeration order on a fresh copy
        w.build("P", scn["tree"])
        if scn["dsstore"] is not None:
            w.put("P/.DS_Store", "x")
        tabp = seal_and_read(w, "P", fmts, holder, perm=scn["perm"])
        compare(tabp, ref, fmts, "listing-order", holder[-1], "create under permuted listing")
        ctx.event("permuted")

        ch = scn["change"]
        if ch:
            path = "R/" + ch["path"]
            parent = posixpath.dirname(ch["path"])
            ancestors = [""]
            acc = ""
            for part in parent.split("/") if parent else []:
                acc = (acc + "/" + part) if acc else part
                ancestors.append(acc)
            if ch["kind"] == "edit":
                w.put(path, w.files[path] + b"+edit")
                ctx.event("edit")
                # on the existing history: recorded format(s) fail for the edited file, a new format is requested as well;
                # the directory hashes of every requested format must still be the definition over the current bytes
                newf = [f for f in refhash.CLI_FORMATS if f not in fmts][:1]
                if newf:
                    allf = fmts + newf
                    res = w.create("R", allf)
                    holder.append(res)
                    require(res.exc is None and res.exit_code == 11, "create", "create on an edited file: " + res.brief(), res)
                    tree_e = w.subtree("R")
                    ref_e = {f: refhash.dirhash(tree_e, f)[2] for f in allf}
                    compare(manifest_table(w.read_history("R")[-1][2]), ref_e, allf, "manifest-edited-file-new-format", res, "create (edited file, recorded + new format)")
                    ctx.event("edited_file_new_format")
            else:
                new = posixpath.join(posixpath.dirname(path), ch["new"])
                if new == path or new in w.files or new in w.dirs:
                    new = path + ".renamed"
                w.mv(path, new)
                ctx.event(ch["kind"])
            # against the recorded history the changed tree fails directory verification (exit 12) - the values printed for
            # it are nevertheless the definition over the bytes and names now on disk, for every directory
            tree2 = w.subtree("R")
            ref2 = {f: refhash.dirhash(tree2, f)[2] for f in fmts}
            for f in fmts[:2]:
                res = w.verify("R", flags=["-dh", "-co", "-h", f])
                require(res.exc is None and res.exit_code in (0, 12), "printed-after-change", "verify -dh -co -h %s on the changed tree: %s" % (f, res.brief()), res)
                compare(printed_table(res.stdout), ref2, [f], "printed-after-change", res, "verify -dh -co on the changed tree (exit %s)" % res.exit_code)
                ctx.event("printed_on_failing_tree" if res.exit_code == 12 else "printed_on_changed_tree_exit0")
            w.rmtree("R/ascmhl")
            tab3 = seal_and_read(w, "R", fmts, holder)
            compare(tab3, ref2, fmts, "manifest-after-change", holder[-1], "create after change")
            for f in fmts:
                for a in ancestors:
                    c1, s1 = tab1[f][a]
                    c3, s3 = tab3[f][a]
                    if ch["kind"] == "edit":
                        require(c1 != c3 and s1 != s3, "meta-edit", "%s: content edit of %r left hashes of ancestor %r unchanged (%s,%s)->(%s,%s)" % (f, ch["path"], a, c1, s1, c3, s3), holder[-1])
                    else:
                        require(c1 == c3, "meta-rename-content", "%s: rename of %r changed the content hash of %r" % (f, ch["path"], a), holder[-1])
                        require(s1 != s3, "meta-rename-structure", "%s: rename of %r left the structure hash of %r unchanged" % (f, ch["path"], a), holder[-1])
                # off the path to the root nothing changes
                for d, v in tab1[f].items():
                    if d in ancestors or d == ch["path"] or d.startswith(ch["path"] + "/"):
                        continue
                    require(tab3[f].get(d) == v, "meta-off-path", "%s: directory %r is off the changed path but its hashes changed" % (f, d), holder[-1])
        if "c4" in fmts:
            ctx.event("c4")
        if len(fmts) >= 2:
            ctx.event("multi_format")
        dirs = gen.tree_dirs(scn["tree"])
        if any(not _node(scn["tree"], d) for d in dirs):
            ctx.event("empty_dir")
        wide = len(scn["tree"]) >= 2 or any(len(_node(scn["tree"], d)) >= 2 for d in dirs)
        ctx.mark_nontrivial(gen.tree_depth(scn["tree"]) >= 1 and wide and (len(fmts) >= 2 or "c4" in fmts))
        return w.trace


def _node(tree, path):
    n = tree
    for p in path.split("/"):
        n = n[p]
    return n

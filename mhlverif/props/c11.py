"""C11 - every file the tool writes is valid against the published schemas.

Domain   generated histories (flat, nested, -sf runs whose parents receive only references, empty folders, trees of
         only directories, runs ending 10/11, rename records via -dr, repeated -h, all format subsets, -n, -i,
         -ii, creator options with syntactically valid e-mail) and `flatten` of any history.
         Later additions: overlapping -sf selections on altered files; names differing in normal form / case only;
         history folders whose names need XML escaping, written several times; renamed nested history folders.
Oracle   every file that a create or flatten run wrote or rewrote (before/after byte snapshots of all ascmhl folders
         and of the flatten destination) is validated with lxml.etree.XMLSchema built from /repo/xsd/ASCMHL.xsd
         (*.mhl) or ASCMHLDirectory__combined.xsd (chain / collection files); the tool's own xsd-schema-check must
         agree with that verdict.
"""
import os

from hypothesis import strategies as st

from .. import gen, hist, refxml
from ..world import World, require

ID = "C11"
LEVEL = "exploration"
RULE = (
    "generated: tree + 1-9 steps (create / create -sf / flatten with generated option combinations, tree edits); every "
    "file written by each run is schema-validated. non-trivial = a run wrote >= 2 files and exercised one of: -sf in "
    "a nested layout, a history without any file, exit 10/11, -dr with a moved file, repeated -h or >= 3 formats, -n, "
    "-i/-ii, creator options, flatten; distinct by canonical scenario hash."
)
ASSUMPTIONS = ["libxml2's XSD validator is the judge of schema validity", "e-mail option values match the XSD pattern (the brief of the property)"]
BUDGET = {"quick": (240, 4), "thorough": (40000, 16)}
REQUIRED = ["sf_nested", "no_file_history", "failed_run", "-dr", "many_formats", "-n", "ignore_opts", "creator_opts", "flatten", "renamed_directory_record", "renamed_nested_history_folder"]

_text = st.one_of(gen.names("full"), st.text(max_size=20).filter(lambda s: all(ord(c) >= 32 and c not in "\x7f  ￾￿" and not (0xD800 <= ord(c) <= 0xDFFF) and not (0x80 <= ord(c) < 0xA0) for c in s)))
_email = st.builds(lambda a, b, c: "%s@%s.%s" % (a, b, c), gen.plain_names(), st.text("abcxyz", min_size=1, max_size=5), st.sampled_from(["com", "de", "co.uk"]))


@st.composite
def _extra(draw):
    out = []
    if draw(st.integers(0, 3)) == 0:
        out += ["--author_name", draw(_text)]
        if draw(st.booleans()):
            out += ["--author_email", draw(_email)]
        if draw(st.booleans()):
            out += ["--author_phone", draw(_text)]
        if draw(st.booleans()):
            out += ["--author_role", draw(_text)]
    if draw(st.integers(0, 4)) == 0:
        out += ["--location", draw(_text)]
    if draw(st.integers(0, 4)) == 0:
        out += ["--comment", draw(_text)]
    if draw(st.integers(0, 4)) == 0:
        for _ in range(draw(st.integers(1, 2))):
            out += ["-i", draw(st.one_of(gen.plain_names().filter(lambda n: not n.startswith("-")), st.sampled_from(["*.txt", "tmp*", "cache/", "?", "*.mov"])))]
    return out


CFG = {
    "kinds": ["create"] * 5 + ["create_sf"] * 4 + ["flatten"] * 2 + ["put_new", "overwrite", "rm", "rmtree", "mkdir", "mkdir", "mv", "mv"],
    "min_steps": 1,
    "max_steps": 9,
    "final": ["create_sf", "create", "flatten"],
    "flags": {"-n": 0.2, "-dr": 0.25, "-v": 0.1},
    "formats": gen.formats(6),
    "extra": _extra(),
    "sf_unique": True,
    "sf_overlap": True,
    "sf_root": True,
}


@st.composite
def _with_rename(draw):
    scn = draw(hist.scenarios(CFG))
    if draw(st.integers(0, 2)) == 0:
        # a recorded file is renamed and the root sealed again with rename detection
        m = hist.GenModel(scn["tree"])
        for s in scn["steps"]:
            m.apply(s)
        if draw(st.booleans()) and not ({"rdir", "rdir.renamed"} & hist.top_names_used(scn)):
            # a renamed folder (added and sealed first): detected through its directory hash when the same format is used again
            fm = draw(gen.formats(2))
            scn["steps"].append({"op": "put_new", "path": "rdir/f1.mov", "spec": "unique content one"})
            scn["steps"].append({"op": "put_new", "path": "rdir/sub/f2.mov", "spec": "unique content two"})
            if draw(st.booleans()):
                # ... which has a history of its own (the renamed folder is then a nested history root)
                scn["steps"].append({"op": "create", "root": "rdir", "formats": fm, "flags": [], "extra": []})
                scn["renamed_history_folder"] = True
            scn["steps"].append({"op": "create", "root": "", "formats": fm, "flags": [], "extra": []})
            scn["steps"].append({"op": "mv", "src": draw(st.sampled_from(["rdir", "rdir/sub"])), "dst": "rdir.renamed"})
            scn["steps"].append({"op": "create", "root": "", "formats": fm, "flags": ["-dr"], "extra": []})
        elif m.files and m.roots:
            src = draw(st.sampled_from(sorted(m.files)))
            dst = src + ".renamed"
            if dst not in m.files and dst not in m.dirs:
                scn["steps"].append({"op": "mv", "src": src, "dst": dst})
                scn["steps"].append({"op": "create", "root": "", "formats": draw(gen.formats(2)), "flags": ["-dr"], "extra": []})
    if draw(st.integers(0, 2)) == 0:
        # a recorded file is altered and then named twice by one -sf run (its folder and the file itself): exit 11
        m = hist.GenModel(scn["tree"])
        for s in scn["steps"]:
            m.apply(s)
        if m.files and m.roots:
            f = draw(st.sampled_from(sorted(m.files)))
            parent = f.rsplit("/", 1)[0] if "/" in f else ""
            scn["steps"].append({"op": "overwrite", "path": f, "spec": "altered before an overlapping -sf run"})
            sel = draw(st.sampled_from([[parent, f], [f, parent], [f, f]]))
            scn["steps"].append({"op": "create_sf", "root": "", "sf": sel, "formats": draw(gen.formats(2)), "flags": [], "extra": []})
    return scn


def strategy(tier):
    return _with_rename()


def enumerated(tier):
    """history folders whose names need XML escaping where they reappear (manifest names in chain and collection files),
    written two and three times; empty roots and empty nested histories with and without -n"""
    for name in ("R&D <final> \"cut\"", "a'b&amp;c", "plain"):
        for child in ("Reel & Co", "x<y>", "sub"):
            tree = {child: {"c.mov": "child"}, "t.mov": "top"}
            st_ = [{"op": "create", "root": child, "formats": ["md5"], "flags": [], "extra": []},
                   {"op": "create", "root": "", "formats": ["md5"], "flags": [], "extra": []},
                   {"op": "flatten", "root": "", "dest": "d", "extra": []},
                   {"op": "create", "root": "", "formats": ["c4"], "flags": ["-n"], "extra": []},
                   {"op": "flatten", "root": "", "dest": "d", "extra": []},
                   {"op": "create_sf", "root": "", "formats": ["md5"], "flags": [], "extra": [], "sf": [child + "/c.mov"]},
                   {"op": "flatten", "root": child, "dest": "d", "extra": []}]
            yield {"root": name, "tree": tree, "steps": st_, "spell": "abs"}
    # two entries of one folder whose names differ in Unicode normal form only (and in case only): two records
    twins = {"caf\u00e9.txt": "composed", "cafe\u0301.txt": "decomposed", "\u212bngstrom": {"x": "1"}, "\u00c5ngstrom": {"x": "2"}, "Clip.mov": "C", "clip.mov": "c",
             "sub": {"\u1e9b\u0323": "a", "\u1e9b\u0323".encode("utf-8").decode("utf-8") + "b": "b", "o\u0302\u0323": "c", "\u1ed9": "d"}}
    for fm in (["xxh64"], ["md5", "c4"]):
        yield {"root": "twins", "tree": twins, "spell": "abs", "steps": [{"op": "create", "root": "", "formats": fm, "flags": [], "extra": []},
               {"op": "create_sf", "root": "", "formats": fm, "flags": [], "extra": [], "sf": ["caf\u00e9.txt", "cafe\u0301.txt", "sub"]}, {"op": "flatten", "root": "", "dest": "t", "extra": []}]}
    for n in ([], ["-n"]):
        yield {"root": "empty root", "tree": {}, "spell": "abs", "steps": [{"op": "create", "root": "", "formats": ["md5"], "flags": n, "extra": []}, {"op": "create", "root": "", "formats": ["md5"], "flags": n, "extra": ["-i", "*.x"]}]}
        yield {"root": "empty child", "tree": {"kid": {}, "f": "x", "all ignored": {"a.tmp": "1"}}, "spell": "abs", "steps": [
            {"op": "create", "root": "kid", "formats": ["md5"], "flags": n, "extra": []}, {"op": "create", "root": "all ignored", "formats": ["md5"], "flags": n, "extra": ["-i", "*.tmp"]},
            {"op": "create", "root": "", "formats": ["md5"], "flags": n, "extra": []}]}


def _walk_files(top):
    out = {}
    if os.path.isdir(top):
        for dp, dn, fns in os.walk(top):
            for fn in fns:
                p = os.path.join(dp, fn)
                with open(p, "rb") as fh:
                    out[p] = fh.read()
    return out


def run_case(scn, ctx):
    nontrivial = False
    with World("c11") as w:
        hist.setup_world(w, scn)
        iifile = None
        for si, step in enumerate(scn["steps"]):
            if step["op"] not in ("create", "create_sf", "flatten"):
                hist.apply_step(w, scn, step)
                continue
            extra = list(step.get("extra", ()))
            # extra is a flat list of option/value pairs; a value may itself look like an option (--comment "-i")
            pairs = [(extra[i], extra[i + 1]) for i in range(0, len(extra) - 1, 2)]
            pats = [v for o, v in pairs if o == "-i"]
            if step["op"] != "flatten" and pats and si % 2 == 1:
                # deliver the patterns through a pattern file instead (-ii)
                keep = [x for o, v in pairs if o != "-i" for x in (o, v)]
                os.makedirs(w.abs("_ii"), exist_ok=True)
                iifile = w.abs("_ii/p%d.txt" % si)
                with open(iifile, "w") as fh:
                    fh.write("\n".join(pats) + "\n")
                extra = keep + ["-ii", iifile]
            step = dict(step, extra=extra)
            before = dict(w.asc_files())
            before.update({w.rel(p): b for p, b in _walk_files(w.abs("_flat")).items()})
            res = hist.apply_step(w, scn, step)
            after = dict(w.asc_files())
            after.update({w.rel(p): b for p, b in _walk_files(w.abs("_flat")).items()})
            written = sorted(p for p in after if before.get(p) != after[p])
            for p in written:
                kind = "manifest" if p.endswith(".mhl") else "directory"
                ok, msg = refxml.xsd_validate(w.abs(p), kind, ctx.repo)
                require(ok, "xsd-" + kind, "%s written by [%s] is not schema-valid: %s" % (p, res.brief(), msg), res)
                # the tool's own checker must agree
                xsd = os.path.join(ctx.repo, "xsd", "ASCMHL.xsd" if kind == "manifest" else "ASCMHLDirectory__combined.xsd")
                args = [w.abs(p), "-xsd", xsd] + (["-df"] if kind == "directory" else [])
                r2 = w.run("xsd_schema_check", args)
                require(r2.exit_code == 0, "xsd-tool-agrees", "xsd-schema-check rejects %s which lxml accepts: %s" % (p, r2.brief()), r2)
            feats = set()
            roots = w.history_roots()
            if step["op"] == "create_sf" and len([r for r in roots if w.under(r, hist.wpath(scn, step["root"]))]) >= 2:
                feats.add("sf_nested")
            if step["op"] == "flatten":
                feats.add("flatten")
            if res.exit_code in (10, 11):
                feats.add("failed_run")
            for p in written:
                if p.endswith(".mhl"):
                    doc = refxml.read_manifest(w.abs(p))
                    if not any(r["kind"] == "file" for r in doc["records"]):
                        feats.add("no_file_history")
                    if any(r["previous"] for r in doc["records"]):
                        feats.add("-dr")
                    if any(r["previous"] and r["kind"] == "dir" for r in doc["records"]):
                        feats.add("renamed_directory_record")
            if len(step.get("formats", ())) != len(set(step.get("formats", ()))) or len(set(step.get("formats", ()))) >= 3:
                feats.add("many_formats")
            if "-n" in step.get("flags", ()):
                feats.add("-n")
            opts = extra[0::2]
            if "-i" in opts or "-ii" in opts:
                feats.add("ignore_opts")
            if any(a.startswith("--") for a in opts):
                feats.add("creator_opts")
            for f in feats:
                ctx.event(f)
            ctx.event("files_validated", len(written))
            if len(written) >= 2 and feats:
                nontrivial = True
        if scn.get("renamed_history_folder"):
            ctx.event("renamed_nested_history_folder")
        ctx.mark_nontrivial(nontrivial)
        return w.trace

"""C18 - a flattened manifest faithfully summarises the history.

Domain   flat histories (no nested child histories, no renames) built by 1-8 generated steps: create with changing
         format sets, create -sf covering part of the tree, added files, files altered (=> generations with failed
         entries) and restored; then `flatten` into a folder outside the tree, then `verify -pl`.
         Later additions: a user ignore pattern from the first generation on, or from a later one (files recorded before
         stay in the summary; the packing list carries the pattern); files beyond the 1 MiB read chunk.
Oracle   reference merge over the source manifests read with the independent reader: per path and format the digest
         of the earliest generation whose entry is not 'failed'.  The packing list must hold exactly these (one
         record per path, one digest per format), no directory record, process type 'flatten', be schema-valid, and
         the source ascmhl folder must be byte-identical afterwards.  verify -pl: exit 0 iff (by the harness's
         model) every present file equals its first recorded bytes, is recorded, and nothing recorded is missing;
         11 when a recorded file is altered (also after altering one more file on purpose), 21 for unrecorded files.
"""
import glob
import os

from hypothesis import strategies as st

from .. import gen, hist, refxml
from ..world import World, require

ID = "C18"
LEVEL = "exploration"
RULE = (
    "generated: flat history of create / create -sf / put / overwrite / restore steps -> flatten -> verify -pl; oracle = "
    "reference merge of the source manifests + tree model. non-trivial = >= 2 generations with differing format sets, "
    "or a failed entry in some generation, or a -sf generation; distinct by canonical scenario hash."
)
ASSUMPTIONS = ["no nested histories and no rename records (the statement's precondition)", "default ignore patterns"]
BUDGET = {"quick": (220, 4), "thorough": (64000, 16)}
REQUIRED = ["format_change", "failed_entry", "sf_generation", "pl_ok", "pl_altered", "pl_new_file", "pl_relative_path", "pattern_early", "pattern_late"]

CFG = {
    "kinds": ["create"] * 5 + ["create_sf"] * 2 + ["put_new", "overwrite", "overwrite", "restore"],
    "min_steps": 1,
    "max_steps": 8,
    "nest": False,
    "first_root": "",
    "flags": {"-n": 0.2},
    "formats": gen.formats(3),
    "min_top": 1,
}


@st.composite
def _scn(draw):
    scn = draw(hist.scenarios(CFG))
    if not any(s["op"] in ("create", "create_sf") for s in scn["steps"]):
        scn["steps"].append({"op": "create", "root": "", "formats": draw(gen.formats(2)), "flags": []})
    if draw(st.integers(0, 5)) == 0 and "big.bin" not in hist.top_names_used(scn):
        scn["tree"]["big.bin"] = ["3c", (1 << 20) + draw(st.sampled_from([1, 4097, 300001]))]  # beyond one read chunk, not a multiple of it
    scn["tail"] = draw(st.sampled_from(["none", "none", "seal_all", "seal_all", "restore_all"]))
    # a user ignore pattern in the history: from the first generation on (the matching files are never recorded), or only
    # from a later generation on (they were recorded before and stay part of the summary)
    scn["pattern"] = draw(st.sampled_from([None, None, None, "early", "late"]))
    if scn["pattern"] and not ({"zz render.xlog", "zz logs"} & hist.top_names_used(scn)):
        scn["tree"]["zz render.xlog"] = "a log at the top"
        scn["tree"]["zz logs"] = {"take 1.xlog": "a log in a folder", "kept.mov": "not a log"}
        if scn["pattern"] == "early":
            # (given with the very first, folder-mode generation: the README documents -i / -ii for that form of create)
            scn["steps"] = [{"op": "create", "root": "", "formats": draw(gen.formats(2)), "flags": [], "extra": ["-i", "*.xlog"]}] + scn["steps"]
        else:
            fm = draw(gen.formats(2))
            scn["steps"] += [{"op": "create", "root": "", "formats": fm, "flags": []}, {"op": "create", "root": "", "formats": fm, "flags": [], "extra": ["-i", "*.xlog"]}]
    else:
        scn["pattern"] = None
    scn["alter"] = draw(st.integers(0, 99))
    return scn


def strategy(tier):
    return _scn()


def run_case(scn, ctx):
    feats = set()
    with World("c18") as w:
        hist.setup_world(w, scn)
        top = scn["root"]
        for step in scn["steps"]:
            res = hist.apply_step(w, scn, step)
            if res is not None:
                require(res.exc is None and res.exit_code in (0, 11), "setup", res.brief(), res)
                if step["op"] == "create_sf":
                    feats.add("sf_generation")
        if scn["tail"] in ("seal_all", "restore_all"):
            for (h, f), data in list(w.first.items()):
                if scn["tail"] == "restore_all" and f in w.files and w.files[f] != data:
                    w.put(f, data)
        if scn["tail"] == "seal_all":
            res = w.create(top, ["md5"])
            require(res.exc is None and res.exit_code in (0, 11), "setup", res.brief(), res)
        docs = w.read_history(top)
        expected = {}
        fmt_sets = []
        for n, p, d in docs:
            fm = set()
            for r in d["records"]:
                if r["kind"] != "file":
                    continue
                for e in r["entries"]:
                    fm.add(e["fmt"])
                    if e["action"] == "failed":
                        feats.add("failed_entry")
                        continue
                    expected.setdefault(r["path"], {}).setdefault(e["fmt"], (e["digest"], e["action"]))
            fmt_sets.append(frozenset(fm))
        if len(set(fmt_sets)) >= 2:
            feats.add("format_change")
        if not expected:
            # no file path was ever recorded (only directories, or -sf on an empty folder wrote nothing): there is
            # nothing to summarise and the tool writes no packing list - outside the statement's domain
            ctx.event("no_file_recorded_not_applicable")
            return w.trace
        src_before = w.asc_files(top)
        snap_before = w.snapshot(top)
        res = w.flatten(top, "_flat/dest")
        require(res.exc is None and res.exit_code == 0, "flatten-exit", res.brief(), res)
        require(w.asc_files(top) == src_before and w.snapshot(top) == snap_before, "source-untouched", "flatten changed the source tree/history", res)
        pls = glob.glob(os.path.join(w.abs("_flat/dest"), "*", "packinglist_*.mhl"))
        require(len(pls) == 1, "one-packing-list", "found %d packing lists" % len(pls), res)
        pl = pls[0]
        doc = refxml.read_manifest(pl)
        require(doc["process"] == "flatten", "process-type", "process type %r" % doc["process"], res)
        ok, msg = refxml.xsd_validate(pl, "manifest", ctx.repo)
        require(ok, "xsd", "packing list not schema-valid: %s" % msg, res)
        coll = os.path.join(os.path.dirname(pl), "ascmhl_collection.xml")
        if os.path.exists(coll):
            ok, msg = refxml.xsd_validate(coll, "directory", ctx.repo)
            require(ok, "xsd", "collection file not schema-valid: %s" % msg, res)
        got = {}
        for r in doc["records"]:
            require(r["kind"] == "file", "no-directory-records", "directory record %r in packing list" % r["path"], res)
            require(r["path"] not in got, "one-record-per-path", "path %r twice" % r["path"], res)
            ent = {}
            for e in r["entries"]:
                require(e["fmt"] not in ent, "one-digest-per-format", "%r: format %s twice" % (r["path"], e["fmt"]), res)
                ent[e["fmt"]] = e["digest"]
            got[r["path"]] = ent
        want = {p: {f: d for f, (d, a) in fm.items()} for p, fm in expected.items()}
        require(set(got) == set(want), "paths", "packing list paths %s, history has %s" % (sorted(set(got) ^ set(want))[:6], len(want)), res)
        for p in want:
            require(got[p] == want[p], "digests", "%r: packing list %r, earliest non-failed digests %r" % (p, got[p], want[p]), res)

        # verify -pl against the model (the packing list carries the history's ignore patterns)
        if scn.get("pattern"):
            require("*.xlog" in doc["patterns"], "patterns", "the packing list does not carry the history's ignore pattern: %r" % doc["patterns"], res)
            if scn["pattern"] == "late":
                require("zz render.xlog" in got and "zz logs/take 1.xlog" in got, "paths", "files recorded before the pattern was introduced are missing from the summary: %r" % sorted(got)[:8], res)
            feats.add("pattern_" + scn["pattern"])
        files = [f for f in w.media_files(top) if not (scn.get("pattern") and f.endswith(".xlog"))]
        rel = lambda f: f[len(top) + 1 :]
        recorded = {top + "/" + p for p in want}
        firsts = {f: data for (h, f), data in w.first.items()}
        A = [f for f in files if f in recorded and w.files[f] != firsts.get(f)]
        N = [f for f in files if f not in recorded]
        Mi = [f for f in recorded if f not in w.files and not (scn.get("pattern") and f.endswith(".xlog"))]
        res = w.verify(top, flags=["-pl", pl])
        require(res.exc is None, "pl-no-abort", res.brief(), res)
        # the same with the packing list (and the root) named relative to a working directory that is not the root
        cwd = {0: w.base, 1: os.path.dirname(pl), 2: w.abs("_flat")}[scn["alter"] % 3]
        relpl = os.path.relpath(pl, cwd)
        res2 = w.run("verify", [w.abs(top), "-pl", relpl if not relpl.startswith("-") else "./" + relpl], cwd=cwd)
        require(res2.exc is None and res2.exit_code == res.exit_code, "pl-relative", "verify -pl %r from %r: %s; with the absolute path: %s" % (relpl, w.rel(cwd), res2.brief(), res.exit_code), res2)
        ctx.event("pl_relative_path")
        wantcode = 11 if A else (21 if N else (10 if Mi else 0))
        require(res.exit_code == wantcode, "pl-exit", "verify -pl: %s, expected %d (altered %s, unrecorded %s)\n%s" % (res.brief(), wantcode, A[:3], N[:3], res.output[-400:]), res)
        feats.add({0: "pl_ok", 11: "pl_altered", 21: "pl_new_file", 10: "pl_missing"}[wantcode])
        rec_present = sorted(f for f in files if f in recorded)
        if rec_present:
            victim = rec_present[scn["alter"] % len(rec_present)]
            changed = w.files[victim] + b"#"
            if changed == firsts.get(victim):
                changed += b"#"  # (appending to an emptied file must not restore the bytes that were first recorded)
            w.put(victim, changed)
            res = w.verify(top, flags=["-pl", pl])
            require(res.exit_code == 11, "pl-detects", "altered %r but verify -pl: %s" % (rel(victim), res.brief()), res)
            feats.add("pl_altered")
        for f in feats:
            ctx.event(f)
        ctx.mark_nontrivial(bool(feats & {"format_change", "failed_entry", "sf_generation"}))
        return w.trace

"""C01 - file digests are the standard algorithms over the exact file bytes.

Domain   byte strings (pattern x length, lengths aimed at the 1 MiB read chunk), format lists over the six CLI
         formats + xxh32 (duplicates, any order), chunkings for streaming, 512-bit values for the c4 codec.
Oracle   hashlib / xxhash called directly + own base-58 encoder (refhash); every entry point of the tool must
         agree with it (and therefore pairwise): hash_data, hash_file, multiple_format_hash_data/_file,
         streaming Hasher.update, bytes_for_hash_string, `hash` command stdout, digest text written by create,
         exit code of verify on the untouched file.
"""
import os

from hypothesis import strategies as st

from .. import refhash, refxml
from ..world import World, content_bytes, require

ID = "C01"
LEVEL = "exploration"
RULE = (
    "generated: (byte pattern x length aimed at 0/1/1MiB-1/1MiB/1MiB+1/k MiB +-1, format list over 7 formats with "
    "duplicates, chunking) checked through 9 entry points against hashlib/xxhash + own base-58 codec; c4 codec "
    "cases: 512-bit values (uniform, small, 58^k and 58^k+-1, 2^512-1) injected as scripted SHA-512 output. "
    "non-trivial = length >= 2^20 (second read-loop iteration) or >= 2 formats in one pass or c4 value < 58^87 "
    "(padding branch); distinct by canonical hash of the case."
)
ASSUMPTIONS = [
    "hashlib and the xxhash C library are the reference implementations of the standard algorithms",
    "files >= 1 MiB live on tmpfs; reads return full chunks (short reads are not simulated)",
]
BUDGET = {"quick": (900, 4), "thorough": (144000, 16)}
REQUIRED = ["multi_chunk", "multi_format", "c4_padded", "len0", "len_2^20", "len_2^20+1", "len_2^20-1", "inplace_edit"]

MIB = 1 << 20
CLI = refhash.CLI_FORMATS
ALLF = refhash.ALL_FORMATS


def _lengths():
    boundary = [0, 1, 2, 63, 64, 65, 4096, MIB - 1, MIB, MIB + 1, 2 * MIB - 1, 2 * MIB, 2 * MIB + 1, 3 * MIB, 4 * MIB + 1]
    return st.one_of(
        st.integers(0, 300),
        st.integers(0, 300),
        st.sampled_from(boundary),
        st.integers(MIB - 3, MIB + 3),
        st.integers(0, 5 * MIB),
    )


@st.composite
def _bytes_case(draw):
    length = draw(_lengths())
    pat = draw(st.binary(min_size=1, max_size=48)).hex()
    formats = draw(st.lists(st.sampled_from(ALLF), min_size=1, max_size=8))
    nchunks = draw(st.integers(0, 5))
    cuts = sorted(draw(st.lists(st.integers(0, max(length, 1)), min_size=nchunks, max_size=nchunks)))
    name = draw(st.sampled_from(["f.bin", "a b.mov", "ä中.dat", "x&y<z>.txt"]))
    return {"kind": "bytes", "pat": pat, "len": length, "formats": formats, "cuts": cuts, "name": name}


_P58 = [58**k for k in range(89)]


@st.composite
def _c4_case(draw):
    which = draw(st.integers(0, 5))
    top = 2**512 - 1
    if which == 0:
        v = draw(st.integers(0, top))
    elif which == 1:
        v = draw(st.integers(0, 1 << 64))
    elif which == 2:
        k = draw(st.integers(0, 87))
        v = _P58[k] + draw(st.integers(-2, 2))
    elif which == 3:
        # a value with a chosen number of leading zero digits
        k = draw(st.integers(1, 87))
        v = draw(st.integers(0, _P58[88 - k] - 1))
    elif which == 4:
        v = top - draw(st.integers(0, 1000))
    else:
        v = draw(st.integers(0, 58**3))
    v = min(max(v, 0), top)
    return {"kind": "c4", "value": "%x" % v}


def strategy(tier):
    return st.one_of(_bytes_case(), _bytes_case(), _c4_case())


def enumerated(tier):
    top = 2**512 - 1
    seen = set()
    for k in range(89):
        for d in (-1, 0, 1):
            v = 58**k + d
            if 0 <= v <= top and v not in seen:
                seen.add(v)
                yield {"kind": "c4", "value": "%x" % v}
    for v in (0, top, top - 1, 1 << 511, (1 << 511) - 1):
        if v not in seen:
            seen.add(v)
            yield {"kind": "c4", "value": "%x" % v}
    for length in (0, 1, MIB - 1, MIB, MIB + 1, 2 * MIB, 2 * MIB + 1, 3 * MIB - 1):
        yield {"kind": "bytes", "pat": "00ff17a5", "len": length, "formats": list(ALLF), "cuts": [length // 2], "name": "f.bin"}
        for f in ALLF:
            yield {"kind": "bytes", "pat": "6d686c", "len": length, "formats": [f], "cuts": [], "name": "f.bin"}


class _Scripted:
    def __init__(self, hexdigest):
        self._h = hexdigest

    def hexdigest(self):
        return self._h

    def update(self, data):
        raise AssertionError("scripted hasher")


def _c4_codec(scn, ctx):
    from ascmhl import hasher

    v = int(scn["value"], 16)
    expected = refhash.c4_encode_int(v)
    c = hasher.C4()
    c.hasher = _Scripted("%0128x" % v)
    got = c.string_digest()
    require(got == expected, "c4-encode", lambda: "value %x: tool %r, reference %r" % (v, got, expected))
    require(bool(refhash.CANONICAL["c4"].match(got)), "c4-canonical", "not 90 chars of 'c4'+base58: %r" % got)
    back = hasher.bytes_for_hash_string(expected, "c4")
    require(back == v.to_bytes(64, "big"), "c4-decode", lambda: "decode(%s) = %s" % (expected, back.hex()))
    if v < 58**87:
        ctx.event("c4_padded")
        ctx.mark_nontrivial()
    ctx.event("c4_case")


def run_case(scn, ctx):
    if scn["kind"] == "c4":
        _c4_codec(scn, ctx)
        return None
    from ascmhl import hasher

    data = content_bytes([scn["pat"], scn["len"]])
    n = len(data)
    formats = scn["formats"]
    distinct = sorted(set(formats))
    ref = {f: refhash.digest(f, data) for f in distinct}
    ctx.event("bytes_case")
    if n >= MIB:
        ctx.event("multi_chunk")
    if len(distinct) >= 2:
        ctx.event("multi_format")
    for tag, val in (("len0", 0), ("len_2^20", MIB), ("len_2^20+1", MIB + 1), ("len_2^20-1", MIB - 1)):
        if n == val:
            ctx.event(tag)
    ctx.mark_nontrivial(n >= MIB or len(distinct) >= 2)

    with World("c01") as w:
        rel = "R/" + scn["name"]
        w.put(rel, data)
        path = w.abs(rel)
        for f in distinct:
            r = ref[f]
            got = hasher.hash_data(data, f)
            require(got == r, "hash_data", lambda: "%s len %d: %r != reference %r" % (f, n, got, r))
            got = hasher.hash_file(path, f)
            require(got == r, "hash_file", lambda: "%s len %d: %r != reference %r" % (f, n, got, r))
            require(bool(refhash.CANONICAL[f].match(got)), "canonical", "%s digest %r not canonical" % (f, got))
            raw = hasher.bytes_for_hash_string(r, f)
            require(raw == refhash.raw_digest(f, data), "decode", "%s: decode(%r) wrong" % (f, r))
            # streaming in the generated chunking
            h = hasher.new_hasher_for_hash_type(f)
            prev = 0
            for c in sorted(set(min(x, n) for x in scn["cuts"])) + [n]:
                h.update(data[prev:c])
                prev = c
            got = h.string_digest()
            require(got == r, "streaming", lambda: "%s len %d cuts %s: %r != %r" % (f, n, scn["cuts"], got, r))
        got = hasher.multiple_format_hash_data(data, list(formats))
        require(got == ref, "multi_data", lambda: "formats %s len %d: %r != %r" % (formats, n, got, ref))
        got = hasher.multiple_format_hash_file(path, list(formats))
        require(got == ref, "multi_file", lambda: "formats %s len %d: %r != %r" % (formats, n, got, ref))

        cli = [f for f in formats if f in CLI]
        if cli:
            f0 = cli[0]
            res = w.run("hash", [path, "-h", f0])
            line = "%s (%s) = %s" % (f0, path, ref[f0])
            require(
                res.exit_code == 0 and res.stdout.strip() == line,
                "hash_cmd",
                lambda: "stdout %r, expected %r" % (res.stdout, line),
                res,
            )
            res = w.create("R", formats=cli)
            require(res.exit_code == 0, "create_exit", "create on a fresh one-file tree: " + res.brief(), res)
            hist = w.read_history("R")
            require(len(hist) == 1, "create_exit", "expected one manifest, found %d" % len(hist), res)
            recs = [x for x in hist[0][2]["records"] if x["kind"] == "file"]
            require(len(recs) == 1 and recs[0]["path"] == scn["name"], "create_record", "records: %r" % recs, res)
            got = {e["fmt"]: e["digest"] for e in recs[0]["entries"]}
            want = {f: ref[f] for f in set(cli)}
            require(got == want, "create_digest", lambda: "manifest %r != reference %r" % (got, want), res)
            res = w.verify("R")
            require(res.exit_code == 0, "verify_exit", "verify on the untouched file: " + res.brief(), res)
            # a one-bit change must be seen, wherever it is (first byte, chunk boundary, last byte)
            if n > 0:
                pos = scn["cuts"][0] % n if scn["cuts"] else n - 1
                mutated = bytearray(data)
                mutated[pos] ^= 0x01
                # in place: same inode, same size and - restored below - same modification time, so that only the
                # bytes differ ("the result depends only on the bytes")
                st_ = os.stat(path)
                with open(path, "r+b") as fh:
                    fh.seek(pos)
                    fh.write(bytes(mutated[pos : pos + 1]))
                os.utime(path, ns=(st_.st_atime_ns, st_.st_mtime_ns))
                w.files[rel] = bytes(mutated)
                for f in distinct:
                    got = hasher.hash_file(path, f)
                    want = refhash.digest(f, bytes(mutated))
                    require(got == want, "hash_file_after_inplace_edit", lambda: "%s: %r after a same-size, same-mtime edit, reference %r" % (f, got, want))
                got = hasher.multiple_format_hash_file(path, list(formats))
                require(got == {f: refhash.digest(f, bytes(mutated)) for f in distinct}, "multi_file_after_inplace_edit", "stale digests after an in-place edit: %r" % got)
                res = w.verify("R")
                require(res.exit_code == 11, "verify_detects", "bit flip at %d of %d (size and mtime unchanged): %s" % (pos, n, res.brief()), res)
                ctx.event("inplace_edit")
        return w.trace

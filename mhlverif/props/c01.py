"""C01 - file digests are the standard algorithms over the exact file bytes.

Domain   byte strings (pattern x length, lengths aimed at the 1 MiB read chunk), format lists over the six CLI
         formats + xxh32 (duplicates, any order), chunkings for streaming, 512-bit values for the c4 codec.
Oracle   hashlib / xxhash called directly + own base-58 encoder (refhash); every entry point of the tool must
         agree with it (and therefore pairwise): hash_data, hash_file, multiple_format_hash_data/_file,
         streaming Hasher.update, bytes_for_hash_string, `hash` command stdout, digest text written by create,
         exit code of verify on the untouched file.
"""
import os

from hypothesis import strategies as st

from .. import refhash, refxml
from ..world import World, content_bytes, require

ID = "C01"
LEVEL = "exploration"
RULE = (
    "generated: (byte pattern x length aimed at 0/1/1MiB-1/1MiB/1MiB+1/k MiB +-1, format list over 7 formats with "
    "duplicates, chunking) checked through 9 entry points against hashlib/xxhash + own base-58 codec; c4 codec "
    "cases: 512-bit values (uniform, small, 58^k and 58^k+-1, 2^512-1) injected as scripted SHA-512 output. "
    "non-trivial = length >= 2^20 (second read-loop iteration) or >= 2 formats in one pass or c4 value < 58^87 "
    "(padding branch); distinct by canonical hash of the case."
)
ASSUMPTIONS = [
    "hashlib and the xxhash C library are the reference implementations of the standard algorithms",
    "files >= 1 MiB live on tmpfs; reads return full chunks (short reads are not simulated)",
]
BUDGET = {"quick": (900, 4), "thorough": (144000, 16)}
REQUIRED = ["multi_chunk", "multi_format", "c4_padded", "len0", "len_2^20", "len_2^20+1", "len_2^20-1", "inplace_edit", "leading_zero_digest"]

MIB = 1 << 20
CLI = refhash.CLI_FORMATS
ALLF = refhash.ALL_FORMATS


def _lengths():
    boundary = [0, 1, 2, 63, 64, 65, 4096, MIB - 1, MIB, MIB + 1, 2 * MIB - 1, 2 * MIB, 2 * MIB + 1, 3 * MIB, 4 * MIB + 1]
    return st.one_of(
        st.integers(0, 300),
        st.integers(0, 300),
        st.sampled_from(boundary),
        st.integers(MIB - 3, MIB + 3),
        st.integers(0, 5 * MIB),
    )


@st.composite
def _bytes_case(draw):
    length = draw(_lengths())
    pat = draw(st.binary(min_size=1, max_size=48)).hex()
    formats = draw(st.lists(st.sampled_from(ALLF), min_size=1, max_size=8))
    nchunks = draw(st.integers(0, 5))
    cuts = sorted(draw(st.lists(st.integers(0, max(length, 1)), min_size=nchunks, max_size=nchunks)))
    name = draw(st.sampled_from(["f.bin", "a b.mov", "ä中.dat", "x&y<z>.txt"]))
    return {"kind": "bytes", "pat": pat, "len": length, "formats": formats, "cuts": cuts, "name": name}


_P58 = [58**k for k in range(89)]


@st.composite
def _c4_case(draw):
    which = draw(st.integers(0, 5))
    top = 2**512 - 1
    if which == 0:
        v = draw(st.integers(0, top))
    elif which == 1:
        v = draw(st.integers(0, 1 << 64))
    elif which == 2:
        k = draw(st.integers(0, 87))
        v = _P58[k] + draw(st.integers(-2, 2))
    elif which == 3:
        # a value with a chosen number of leading zero digits
        k = draw(st.integers(1, 87))
        v = draw(st.integers(0, _P58[88 - k] - 1))
    elif which == 4:
        v = top - draw(st.integers(0, 1000))
    else:
        v = draw(st.integers(0, 58**3))
    v = min(max(v, 0), top)
    return {"kind": "c4", "value": "%x" % v}


def strategy(tier):
    return st.one_of(_bytes_case(), _bytes_case(), _c4_case())


def enumerated(tier):
    top = 2**512 - 1
    seen = set()
    for k in range(89):
        for d in (-1, 0, 1):
            v = 58**k + d
            if 0 <= v <= top and v not in seen:
                seen.add(v)
                yield {"kind": "c4", "value": "%x" % v}
    for v in (0, top, top - 1, 1 << 511, (1 << 511) - 1):
        if v not in seen:
            seen.add(v)
            yield {"kind": "c4", "value": "%x" % v}
    for f, d in sorted(leading_zero_inputs().items()):
        for tag, i in sorted(d.items()):
            if i is not None:
                text = "mhl-%d" % i
                yield {"kind": "bytes", "pat": text.encode().hex(), "len": len(text), "formats": [f] + [x for x in ALLF if x != f][:2], "cuts": [2], "name": "f.bin", "leading": f + ":" + tag}
    for length in (0, 1, MIB - 1, MIB, MIB + 1, 2 * MIB, 2 * MIB + 1, 3 * MIB - 1):
        yield {"kind": "bytes", "pat": "00ff17a5", "len": length, "formats": list(ALLF), "cuts": [length // 2], "name": "f.bin"}
        for f in ALLF:
            yield {"kind": "bytes", "pat": "6d686c", "len": length, "formats": [f], "cuts": [], "name": "f.bin"}


_LEADING = {}


def leading_zero_inputs():
    """per hex format: short inputs whose digest starts with '00', with '0' + non-zero, and (c4) with '11' / '1'"""
    if _LEADING:
        return _LEADING
    want = {f: {"00": None, "0x": None} for f in ALLF if f != "c4"}
    want["c4"] = {"c411": None, "c41x": None}
    i = 0
    while any(v is None for d in want.values() for v in d.values()) and i < 200000:
        data = b"mhl-%d" % i
        for f, d in want.items():
            dig = refhash.digest(f, data)
            if f == "c4":
                if d["c411"] is None and dig.startswith("c411"):
                    d["c411"] = i
                elif d["c41x"] is None and dig.startswith("c41") and dig[3] != "1":
                    d["c41x"] = i
            else:
                if d["00"] is None and dig.startswith("00"):
                    d["00"] = i
                elif d["0x"] is None and dig[0] == "0" and dig[1] != "0":
                    d["0x"] = i
        i += 1
    _LEADING.update(want)
    return _LEADING


class _Scripted:
    def __init__(self, hexdigest):
        self._h = hexdigest

    def hexdigest(self):
        return self._h

    def update(self, data):
        raise AssertionError("scripted hasher")


def _c4_codec(scn, ctx):
    from ascmhl import hasher

    v = int(scn["value"], 16)
    expected = refhash.c4_encode_int(v)
    c = hasher.C4()
    c.hasher = _Scripted("%0128x" % v)
    got = c.string_digest()
    require(got == expected, "c4-encode", lambda: "value %x: tool %r, reference %r" % (v, got, expected))
    require(bool(refhash.CANONICAL["c4"].match(got)), "c4-canonical", "not 90 chars of 'c4'+base58: %r" % got)
    back = hasher.bytes_for_hash_string(expected, "c4")
    require(back == v.to_bytes(64, "big"), "c4-decode", lambda: "decode(%s) = %s" % (expected, back.hex()))
    if v < 58**87:
        ctx.event("c4_padded")
        ctx.mark_nontrivial()
    ctx.event("c4_case")


def run_case(scn, ctx):
    if scn["kind"] == "c4":
        _c4_codec(scn, ctx)
        return None
    from ascmhl import hasher

    data = content_bytes([scn["pat"], scn["len"]])
    n = len(data)
    formats = scn["formats"]
    distinct = sorted(set(formats))
    ref = {f: refhash.digest(f, data) for f in distinct}
    ctx.event("bytes_case")
    if n >= MIB:
        ctx.event("multi_chunk")
    if len(distinct) >= 2:
        ctx.event("multi_format")
    for tag, val in (("len0", 0), ("len_2^20", MIB), ("len_2^20+1", MIB + 1), ("len_2^20-1", MIB - 1)):
        if n == val:
            ctx.event(tag)
    ctx.mark_nontrivial(n >= MIB or len(distinct) >= 2)
    if scn.get("leading"):
        ctx.event("leading_zero_digest")
    for f in distinct:
        if ref[f].startswith("00") or ref[f].startswith("c411"):
            ctx.event("digest_leading_zero_byte")

    with World("c01") as w:
        rel = "R/" + scn["name"]
        w.put(rel, data)
        path = w.abs(rel)
        for f in distinct:
            r = ref[f]
            got = hasher.hash_data(data, f)
            require(got == r, "hash_data", lambda: "%s len %d: %r != reference %r" % (f, n, got, r))
            got = hasher.hash_file(path, f)
            require(got == r, "hash_file", lambda: "%s len %d: %r != reference %r" % (f, n, got, r))
            require(bool(refhash.CANONICAL[f].match(got)), "canonical", "%s digest %r not canonical" % (f, got))
            raw = hasher.bytes_for_hash_string(r, f)
            require(raw == refhash.raw_digest(f, data), "decode", "%s: decode(%r) wrong" % (f, r))
            # streaming in the generated chunking
            h = hasher.new_hasher_for_hash_type(f)
            prev = 0
            for c in sorted(set(min(x, n) for x in scn["cuts"])) + [n]:
                h.update(data[prev:c])
                prev = c
            got = h.string_digest()
            require(got == r, "streaming", lambda: "%s len %d cuts %s: %r != %r" % (f, n, scn["cuts"], got, r))
            # two streaming hashers of one format side by side, with one-shot calls in between: each digest depends
            # on its own bytes only
            h1 = hasher.new_hasher_for_hash_type(f)
            mid = n // 2
            h1.update(data[:mid])
            h2 = hasher.new_hasher_for_hash_type(f)
            h2.update(b"interloper")
            other = hasher.hash_data(b"one-shot in between", f)
            require(other == refhash.digest(f, b"one-shot in between"), "hash_data", "%s one-shot call between updates: %r" % (f, other))
            h1.update(data[mid:])
            got1, got2 = h1.string_digest(), h2.string_digest()
            require(got1 == r, "streaming_interleaved", lambda: "%s: a hasher fed %d bytes around other hashers of the same format gives %r, reference %r" % (f, n, got1, r))
            require(got2 == refhash.digest(f, b"interloper"), "streaming_interleaved", lambda: "%s: second hasher %r" % (f, got2))
        got = hasher.multiple_format_hash_data(data, list(formats))
        require(got == ref, "multi_data", lambda: "formats %s len %d: %r != %r" % (formats, n, got, ref))
        got = hasher.multiple_format_hash_file(path, list(formats))
        require(got == ref, "multi_file", lambda: "formats %s len %d: %r != %r" % (formats, n, got, ref))

        cli = [f for f in formats if f in CLI]
        if cli:
            f0 = cli[0]
            res = w.run("hash", [path, "-h", f0])
            line = "%s (%s) = %s" % (f0, path, ref[f0])
            require(
                res.exit_code == 0 and res.stdout.strip() == line,
                "hash_cmd",
                lambda: "stdout %r, expected %r" % (res.stdout, line),
                res,
            )
            # two bystander files, one sorting before and one after the file under test
            others = {"R/!first.txt": b"bystander one", "R/~last.txt": b"bystander two, different"}
            for op, od in others.items():
                w.put(op, od)
            res = w.create("R", formats=cli)
            require(res.exit_code == 0, "create_exit", "create on a fresh tree: " + res.brief(), res)
            hist = w.read_history("R")
            require(len(hist) == 1, "create_exit", "expected one manifest, found %d" % len(hist), res)
            recs = [x for x in hist[0][2]["records"] if x["kind"] == "file" and x["path"] == scn["name"]]
            require(len(recs) == 1, "create_record", "records: %r" % recs, res)
            for op, od in others.items():
                orec = [x for x in hist[0][2]["records"] if x["kind"] == "file" and x["path"] == op[2:]]
                require(len(orec) == 1 and all(e["digest"] == refhash.digest(e["fmt"], od) for e in orec[0]["entries"]), "create_digest", "bystander %s recorded wrongly: %r" % (op, orec), res)
            got = {e["fmt"]: e["digest"] for e in recs[0]["entries"]}
            want = {f: ref[f] for f in set(cli)}
            require(got == want, "create_digest", lambda: "manifest %r != reference %r" % (got, want), res)
            res = w.verify("R")
            require(res.exit_code == 0, "verify_exit", "verify on the untouched file: " + res.brief(), res)
            # two more generations with other format combinations (recorded formats re-verified, new ones added): every
            # digest any generation records for the file is the standard digest of the same bytes
            rest = [f for f in CLI if f not in cli]
            for gi, fs in enumerate([list(reversed(cli)) + rest[:1], rest[1:3] + cli[:1]]):
                if not fs:
                    continue
                res = w.create("R", formats=fs)
                require(res.exit_code == 0 and res.exc is None, "create_exit", "generation %d with formats %s on the untouched tree: %s" % (gi + 2, fs, res.brief()), res)
                recs = [x for x in w.read_history("R")[-1][2]["records"] if x["kind"] == "file" and x["path"] == scn["name"]]
                require(len(recs) == 1, "create_record", "generation %d records: %r" % (gi + 2, recs), res)
                for e in recs[0]["entries"]:
                    want_d = refhash.digest(e["fmt"], data)
                    require(e["digest"] == want_d and e["action"] in ("verified", "original"), "create_digest",
                            "generation %d %s: recorded %s (%s), reference %s" % (gi + 2, e["fmt"], e["digest"], e["action"], want_d), res)
                ref.update({e["fmt"]: e["digest"] for e in recs[0]["entries"]})
            ctx.event("multi_generation_digests")
            # a one-bit change must be seen, wherever it is (first byte, chunk boundary, last byte)
            if n > 0:
                pos = scn["cuts"][0] % n if scn["cuts"] else n - 1
                mutated = bytearray(data)
                mutated[pos] ^= 0x01
                # in place: same inode, same size and - restored below - same modification time, so that only the
                # bytes differ ("the result depends only on the bytes")
                st_ = os.stat(path)
                with open(path, "r+b") as fh:
                    fh.seek(pos)
                    fh.write(bytes(mutated[pos : pos + 1]))
                os.utime(path, ns=(st_.st_atime_ns, st_.st_mtime_ns))
                w.files[rel] = bytes(mutated)
                for f in distinct:
                    got = hasher.hash_file(path, f)
                    want = refhash.digest(f, bytes(mutated))
                    require(got == want, "hash_file_after_inplace_edit", lambda: "%s: %r after a same-size, same-mtime edit, reference %r" % (f, got, want))
                got = hasher.multiple_format_hash_file(path, list(formats))
                require(got == {f: refhash.digest(f, bytes(mutated)) for f in distinct}, "multi_file_after_inplace_edit", "stale digests after an in-place edit: %r" % got)
                res = w.verify("R")
                require(res.exit_code == 11, "verify_detects", "bit flip at %d of %d (size and mtime unchanged): %s" % (pos, n, res.brief()), res)
                ctx.event("inplace_edit")
                # the digests printed for the altered file are the recorded one and the standard digest of the new bytes
                import re as _re

                lines = [l for l in res.output.split("\n") if l.startswith("ERROR: hash mismatch")]
                require(len(lines) == 1, "verify_prints", "expected one mismatch line, got %r" % lines, res)
                m = _re.search(r" old (\w+): (\S+), new (\w+): (\S+)$", lines[0])
                require(m is not None, "verify_prints", "unparsable mismatch line %r" % lines[0], res)
                pf = m.group(1)
                require(m.group(3) == pf and m.group(2) == ref[pf] and m.group(4) == refhash.digest(pf, bytes(mutated)), "verify_prints",
                        "verify prints old %s / new %s for %s; recorded %s, the altered bytes hash to %s" % (m.group(2), m.group(4), pf, ref.get(pf), refhash.digest(pf, bytes(mutated))), res)
                res = w.create("R", formats=cli)
                require(res.exit_code == 11, "create_detects", "create after the bit flip: " + res.brief(), res)
                for l in [l for l in res.output.split("\n") if l.startswith("ERROR: hash mismatch")]:
                    m = _re.search(r"  (\w+) \(old\): (\S+), (\w+) \(new\): (\S+)$", l)
                    require(m is not None and m.group(2) == ref[m.group(1)] and m.group(4) == refhash.digest(m.group(1), bytes(mutated)), "create_prints",
                            "create prints %r; recorded %s, the altered bytes hash to %s" % (l[-120:], ref.get(m.group(1)) if m else None, refhash.digest(m.group(1), bytes(mutated)) if m else None), res)
                # the failed generation must not leak into later ones: restore the bytes, seal in every format on record
                w.put(rel, data)
                res = w.create("R", formats=[f for f in sorted(ref) if f in CLI])
                require(res.exit_code == 0 and res.exc is None, "create_exit", "after restoring the original bytes: " + res.brief(), res)
                recs = [x for x in w.read_history("R")[-1][2]["records"] if x["kind"] == "file" and x["path"] == scn["name"]]
                for e in recs[0]["entries"] if recs else []:
                    require(e["digest"] == refhash.digest(e["fmt"], data) and e["action"] == "verified", "create_digest_after_restore",
                            "%s: recorded %s (%s) after the restore, the bytes hash to %s" % (e["fmt"], e["digest"], e["action"], refhash.digest(e["fmt"], data)), res)
                ctx.event("restored_after_failed_generation")
        return w.trace

"""C03 - verification reports every discrepancy and never a false one.

Domain   phase 1 seals a generated tree: creates (folder and -sf mode, any formats, at any directory -> flat and nested
         histories, 1-5 generations) interleaved with additions, ending with a create of the top folder that must
         exit 0.  Phase 2 applies a generated set of 0-4 mutations (overwrite with same/different length, append,
         truncate, delete file, delete empty directory, delete subtree, add file, add empty directory, move, touch
         mtimes, add .DS_Store) and runs verify, diff and create on the top folder or on a nested history root.
         On small trees every single-file alteration is additionally enumerated (one verify per recorded file).
         Later additions: new files named like a recorded file of another history; `verify -sf FILE` on the altered file
         (11, named) and on an unaltered one (0) in the per-file enumeration.
Oracle   model sets from the harness's own bookkeeping: A = recorded files still present with other bytes,
         M = recorded files/directories no longer present, N = present, non-ignored, never recorded files.
         Exit codes and the named paths in 'hash mismatch', 'missing file(s)' and 'found new file' output must
         match the sets exactly (clauses u/a/m/n/p/i in DESIGN.md).
"""
import posixpath
import re

from hypothesis import strategies as st

from .. import gen, hist
from ..world import World, require

ID = "C03"
LEVEL = "fault_enumeration"
RULE = (
    "generated: sealed world (phase 1 history of creates/additions, flat or nested, 1-5 generations, any formats) x a "
    "set of 0-4 tree mutations x {verify, diff, create} on the top or a nested root, plus per-file alteration "
    "enumeration on trees with <= 8 files; oracle = model sets A/M/N. non-trivial = a mutation lands in a nested "
    "history or in a path first recorded in a generation > 1, or >= 2 mutation kinds are combined, or (unchanged "
    "tree and the history has >= 2 formats or >= 2 generations); distinct by canonical scenario hash."
)
ASSUMPTIONS = [
    "only default ignore patterns (custom patterns: C12); regular files and directories only",
    "names removed by a mutation are not reused by another entry of a different type in the same case",
]
BUDGET = {"quick": (220, 4), "thorough": (20000, 16)}
REQUIRED = ["unchanged", "altered", "missing_file", "missing_dir", "new_file", "nested_mutation", "combined", "ignored_only", "per_file_enum", "trailing_slash_root", "big_file_tail_altered", "new_file_named_like_recorded"]

P1 = {
    "kinds": ["create"] * 5 + ["create_sf"] * 2 + ["put_new"] * 3 + ["mkdir"],
    "min_steps": 0,
    "max_steps": 6,
    "max_leaves": 12,
    "min_top": 1,
    "flags": {"-n": 0.15, "-v": 0.15},
}
MUT = ["overwrite_same", "overwrite_diff", "append", "truncate", "empty", "rm", "rmdir_empty", "rmtree", "add", "add_dir", "mv", "touch", "dsstore", "add_twin", "add_twin"]


@st.composite
def _scn(draw):
    scn = draw(hist.scenarios_deep(P1))
    if draw(st.integers(0, 3)) == 0:
        base = draw(st.sampled_from(["Clips", "s", "A"]))
        sib = base + draw(st.sampled_from(["_proxy", "2", " b"]))
        if not ({base, sib} & hist.top_names_used(scn)):
            scn["tree"][base] = {"in.mov": "inside " + base}
            scn["tree"][sib] = {"next.mov": "beside " + base, "sub": {"deeper.mov": "x"}}
            scn["steps"] = [{"op": "create", "root": base, "formats": draw(gen.formats(2)), "flags": []}] + scn["steps"]
    if draw(st.integers(0, 5)) == 0 and "big.bin" not in hist.top_names_used(scn):
        scn["tree"]["big.bin"] = ["a55a17", (1 << 20) + draw(st.integers(1, 200000))]
        scn["big"] = True
    scn["steps"].append({"op": "create", "root": "", "formats": draw(gen.formats(3)), "flags": []})
    m = hist.GenModel(scn["tree"])
    for s in scn["steps"]:
        m.apply(s)
    n = draw(st.sampled_from([0, 1, 1, 1, 1, 2, 3, 4]))
    muts = []
    used = set()
    if scn.get("big") and draw(st.booleans()):
        # only bytes behind the first MiB change
        muts.append({"kind": draw(st.sampled_from(["append", "truncate", "flip_last"])), "path": "big.bin", "salt": 7})
        used.add("big.bin")
    for i in range(n):
        kind = draw(st.sampled_from(MUT))
        files = [f for f in sorted(m.files) if f not in used]
        dirs = [d for d in sorted(m.dirs) if not m.has_root_below(d) and d not in used]
        if kind in ("overwrite_same", "overwrite_diff", "append", "truncate", "empty", "rm") and files:
            f = draw(st.sampled_from(files))
            muts.append({"kind": kind, "path": f, "salt": draw(st.integers(0, 255))})
            used.add(f)
            if kind == "rm":
                m.files.pop(f)
        elif kind == "rmdir_empty":
            empty = [d for d in dirs if not any(x.startswith(d + "/") for x in list(m.files) + list(m.dirs))]
            if empty:
                d = draw(st.sampled_from(empty))
                muts.append({"kind": "rmtree", "path": d})
                m.apply({"op": "rmtree", "path": d})
                used.add(d)
        elif kind == "rmtree" and dirs:
            d = draw(st.sampled_from(dirs))
            muts.append({"kind": "rmtree", "path": d})
            m.apply({"op": "rmtree", "path": d})
            used.add(d)
        elif kind in ("add", "add_dir", "dsstore"):
            parent = draw(st.sampled_from([""] + sorted(m.dirs)))
            name = ".DS_Store" if kind == "dsstore" else "new%d_" % i + draw(gen.names())
            p = (parent + "/" if parent else "") + name
            if p in m.files or p in m.dirs:
                continue
            if kind == "add_dir":
                muts.append({"kind": "add_dir", "path": p})
                m.dirs.add(p)
            else:
                muts.append({"kind": "add", "path": p, "spec": draw(gen.contents())})
                m.files[p] = "x"
            used.add(p)
        elif kind == "add_twin":
            # a new file whose path relative to its own history equals the recorded relative path of a file of another
            # history (root/readme.txt recorded, root/card/readme.txt new), or at least shares its name
            cand = []
            allroots = [""] + [r for r in m.roots if r]
            for f in sorted(m.files):
                own = max((r for r in allroots if r == "" or f.startswith(r + "/")), key=len)
                relf = f[len(own) + 1:] if own else f
                for r in allroots:
                    q = (r + "/" if r else "") + relf
                    if r != own and q not in m.files and q not in m.dirs and not any(x in m.files for x in m.parents(q)):
                        cand.append(q)
                for d in sorted(m.dirs):
                    q = d + "/" + f.rsplit("/", 1)[-1]
                    if q not in m.files and q not in m.dirs and len(cand) < 40:
                        cand.append(q)
            cand = [q for q in cand if q not in used and "ascmhl" not in q.split("/")]
            if cand:
                p = draw(st.sampled_from(cand))
                muts.append({"kind": "add", "path": p, "spec": draw(gen.contents()), "twin": True})
                for d in m.parents(p):
                    m.dirs.add(d)
                m.files[p] = "x"
                used.add(p)
        elif kind == "mv":
            cand = files + dirs
            if cand:
                src = draw(st.sampled_from(cand))
                dst = src + ".moved%d" % i
                muts.append({"kind": "mv", "src": src, "dst": dst})
                m.apply({"op": "mv", "src": src, "dst": dst})
                used.add(src)
                used.add(dst)
        elif kind == "touch":
            cand = sorted(m.files) + sorted(m.dirs)
            if cand:
                muts.append({"kind": "touch", "path": draw(st.sampled_from(cand)), "t": draw(st.integers(500000000, 1900000000))})
    scn["mutations"] = muts
    roots = [""] + [r for r in m.roots if r]
    scn["target"] = draw(st.sampled_from(roots + [""] * len(roots)))
    scn["slash"] = draw(st.sampled_from([False, False, True]))  # the root typed with a trailing separator
    return scn


def strategy(tier):
    return _scn()


def rel_in_line(f, target, line):
    return (f[len(target) + 1:] if target else f) in line


def _mismatch_lines(out):
    return [l for l in out.split("\n") if l.startswith("ERROR: hash mismatch")]


def _new_lines(out):
    return [l for l in out.split("\n") if l.startswith("found new file ")]


def _missing_block(out):
    lines = out.split("\n")
    hdr = None
    block = []
    for i, l in enumerate(lines):
        m = re.match(r"^ERROR: (\d+) missing file\(s\):$", l)
        if m:
            hdr = int(m.group(1))
            block = lines[i + 1 : i + 1 + hdr]
    return hdr, block


def check_outputs(cmd, res, target, A, M, N, ctx):
    rel = lambda p: posixpath.relpath(p, target)
    out = res.output
    relA = {rel(p) for p in A}
    relM = {rel(p) for p in M}
    relN = {rel(p) for p in N}
    require(res.exc is None, "no-abort", "%s aborted: %s" % (cmd, res.brief()), res)
    code = res.exit_code
    if not A and not M and not N:
        require(code == 0, "u-exit", "unchanged tree: %s" % res.brief(), res)
        require("ERROR" not in out and "found new file" not in out, "u-output", "unchanged tree but output has errors: %r" % out[-400:], res)
        return
    if cmd == "verify":
        want = 11 if A else (21 if N else 10)
        if A or (N and not M) or (M and not N):
            require(code == want, cmd + "-exit", "A=%s M=%s N=%s: %s (expected %d)" % (sorted(relA), sorted(relM), sorted(relN), res.brief(), want), res)
        else:
            require(code in (10, 21), cmd + "-exit", "M and N non-empty: %s" % res.brief(), res)
    elif cmd == "diff":
        if M and not N:
            require(code == 10, cmd + "-exit", "M=%s: %s" % (sorted(relM), res.brief()), res)
        elif N and not M:
            require(code == 21, cmd + "-exit", "N=%s: %s" % (sorted(relN), res.brief()), res)
        elif M and N:
            require(code in (10, 21), cmd + "-exit", "M and N: %s" % res.brief(), res)
        else:
            require(code == 0, cmd + "-exit", "only content changes, diff does not hash: %s" % res.brief(), res)
    else:  # create
        want = 11 if A else (10 if M else 0)
        require(code == want, cmd + "-exit", "A=%s M=%s: %s (expected %d)" % (sorted(relA), sorted(relM), res.brief(), want), res)
    # named paths
    if cmd in ("verify", "create"):
        lines = _mismatch_lines(out)
        for a in relA:
            if cmd == "verify":
                ok = any(re.match(r"^ERROR: hash mismatch\s+for " + re.escape(a) + r" old \w+: ", l) for l in lines)
            else:
                ok = any(re.match(r"^ERROR: hash mismatch for\s+" + re.escape(a) + r"  \w+ \(old\): ", l) for l in lines)
            require(ok, cmd + "-names-altered", "altered file %r not named in %s output: %r" % (a, cmd, lines[:5]), res)
        for l in lines:
            if cmd == "verify":
                ok = any(re.match(r"^ERROR: hash mismatch\s+for " + re.escape(a) + r" old \w+: ", l) for a in relA)
            else:
                ok = any(re.match(r"^ERROR: hash mismatch for\s+" + re.escape(a) + r"  \w+ \(old\): ", l) for a in relA)
            require(ok, cmd + "-false-altered", "mismatch reported for an unaltered path: %r (A=%s)" % (l, sorted(relA)), res)
    hdr, block = _missing_block(out)
    if M:
        require(hdr is not None, cmd + "-names-missing", "no 'missing file(s)' block although %s are gone (%s)" % (sorted(relM)[:4], res.brief()), res)
        got = {l[2:] if l.startswith("  ") else l for l in block}
        require(got == relM and hdr == len(relM), cmd + "-names-missing", "missing block %s (count %s), expected %s" % (sorted(got), hdr, sorted(relM)), res)
    else:
        require(hdr is None, cmd + "-false-missing", "missing block %r although nothing recorded is gone" % block, res)
    if cmd in ("verify", "diff"):
        got = [l[len("found new file "):] for l in _new_lines(out)]
        require(sorted(got) == sorted(relN), cmd + "-names-new", "new-file lines %s, expected %s" % (sorted(got), sorted(relN)), res)


def run_case(scn, ctx):
    with World("c03") as w:
        hist.setup_world(w, scn)
        top = scn["root"]
        gens = 0
        fmts = set()
        first_gen_of = {}
        for step in scn["steps"]:
            res = hist.apply_step(w, scn, step)
            if res is not None:
                require(res.exc is None and res.exit_code == 0, "u-exit", "phase 1 (additions only): %s" % res.brief(), res)
                gens += 1
                fmts |= set(step["formats"])
                for f in w.media_files(top):
                    if any(k[1] == f for k in w.first):
                        first_gen_of.setdefault(f, gens)
        target = hist.wpath(scn, scn["target"])
        if target not in w.history_roots():
            target = top  # (a create -sf on an empty folder writes nothing: the generator's notion of a root was wrong)
        sealed_files = {f: w.files[f] for f in w.media_files(target)}
        sealed_dirs = set(w.media_dirs(target))
        nested_roots = [r for r in w.history_roots() if r != top]

        # unchanged: all three commands exit 0 (clause u)
        for cmd in ("verify", "diff"):
            res = getattr(w, cmd)(target)
            check_outputs(cmd, res, target, set(), set(), set(), ctx)
        ctx.event("unchanged")

        # enumerate every single-file alteration on small trees
        if 0 < len(sealed_files) <= 8:
            for f, data in sealed_files.items():
                w.put(f, data + b"\x00")
                res = w.verify(target)
                check_outputs("verify", res, target, {f}, set(), set(), ctx)
                # the single-file form of verify: the altered file fails, any other recorded file passes
                res = w.verify(target, flags=["-sf", w.abs(f)])
                require(res.exc is None and res.exit_code == 11, "verify-sf-exit", "verify -sf on the altered %r: %s" % (f, res.brief()), res)
                require(any(rel_in_line(f, target, l) for l in _mismatch_lines(res.output)), "verify-sf-names-altered", "verify -sf does not name the altered %r:\n%s" % (f, res.output[-300:]), res)
                others = [g for g in sealed_files if g != f]
                if others:
                    g = others[len(f) % len(others)]
                    res = w.verify(target, flags=["-sf", w.abs(g)])
                    require(res.exc is None and res.exit_code == 0, "verify-sf-exit", "verify -sf on the unaltered %r (while %r is altered): %s" % (g, f, res.brief()), res)
                w.put(f, data)
                ctx.event("per_file_enum")
            res = w.verify(target)
            check_outputs("verify", res, target, set(), set(), set(), ctx)

        kinds = set()
        nested_mut = False
        late_mut = False
        for mu in scn["mutations"]:
            k = mu["kind"]
            P = lambda p: hist.wpath(scn, p)
            touched = P(mu.get("path") or mu.get("src"))
            if k in ("overwrite_same", "overwrite_diff", "append", "truncate", "empty", "flip_last"):
                old = w.files[touched]
                if k == "flip_last":
                    new = old[:-1] + bytes([old[-1] ^ 0x40])
                    ctx.event("big_file_tail_altered")
                elif k == "empty":
                    new = b"" if old else b"no longer empty"
                elif k == "overwrite_same":
                    new = bytes((b ^ (mu["salt"] | 1)) for b in old) if old else b"\x01"
                elif k == "overwrite_diff":
                    new = b"other-%d-" % mu["salt"] + old[: len(old) // 2]
                elif k == "append":
                    new = old + bytes([mu["salt"]])
                else:
                    new = old[:-1] if old else b"grown"
                w.put(touched, new)
            elif k == "rm":
                w.rm(touched)
            elif k == "rmtree":
                w.rmtree(touched)
            elif k == "add":
                w.put(touched, mu["spec"])
                if mu.get("twin"):
                    ctx.event("new_file_named_like_recorded")
            elif k == "add_dir":
                w.mkdir(touched)
            elif k == "mv":
                w.mv(touched, P(mu["dst"]))
            elif k == "touch":
                w.touch(touched, mu["t"])
            kinds.add(k)
            if any(w.under(touched, r) for r in nested_roots):
                nested_mut = True
            if first_gen_of.get(touched, 1) > 1:
                late_mut = True

        now_files = {f: w.files[f] for f in w.media_files(target)}
        now_dirs = set(w.media_dirs(target))
        A = {f for f in sealed_files if f in now_files and now_files[f] != sealed_files[f]}
        M = {f for f in sealed_files if f not in now_files} | {d for d in sealed_dirs if d not in now_dirs}
        N = {f for f in now_files if f not in sealed_files}
        spell = "slash" if scn.get("slash") else scn.get("spell", "abs")
        if spell != "abs":
            ctx.event("trailing_slash_root" if spell == "slash" else "root_spelled_" + spell)
        for cmd in ("verify", "diff", "create"):
            if cmd == "create":
                res = w.create(target, formats=scn["steps"][-1]["formats"], spell=spell)
            else:
                res = getattr(w, cmd)(target, spell=spell)
            check_outputs(cmd, res, target, A, M, N, ctx)
        if A:
            ctx.event("altered")
        if any(m in sealed_files for m in M):
            ctx.event("missing_file")
        if any(m in sealed_dirs for m in M):
            ctx.event("missing_dir")
        if N:
            ctx.event("new_file")
        if nested_mut:
            ctx.event("nested_mutation")
        if len(kinds) >= 2:
            ctx.event("combined")
        if scn["mutations"] and not (A or M or N):
            ctx.event("ignored_only")
        if scn["target"]:
            ctx.event("nested_target")
        unchanged = not (A or M or N)
        ctx.mark_nontrivial(nested_mut or late_mut or len(kinds) >= 2 or (unchanged and (len(fmts) >= 2 or gens >= 2)))
        return w.trace

"""C08 - nested histories partition the tree and reference each other correctly.

Domain   generated trees with nested histories placed by running create at generated directories in generated order
         (siblings, chains to depth 4+, sibling names that are prefixes of each other, sibling histories in equally named folders, children created after the
         parent had already recorded their files), tree edits, then folder-mode or -sf creates at any history
         root, with and without -n.  Every create of the history is observed.
         Later additions: the excluded nested history named by its path ('grp/Skip') or by an anchored pattern ('/Skip')
         beside a namesake that stays in; the pattern introduced by a -n run; a -sf run over three histories whose
         first file fails verification.
Oracle   the harness's tree model assigns each entry to the deepest enclosing history root: per written manifest
         the exact record set (shared with C02); each nested root appears in its parent's new manifest as a
         directory record whose hashes equal the child's own <roothash> (none with -n); the set of histories
         that gained a generation equals the model's set (folder mode: every history at or below the invoked
         root; -sf: exactly those between the invoked root and a sealed file); <references> of each parent = one
         entry per direct child that wrote, path = POSIX relpath, c4 = own SHA-512/base-58 of the child file's
         final bytes; child files are older than or as old as the parent's (mtime order).
"""
import os
import posixpath

from hypothesis import strategies as st

from .. import gen, hist, refhash
from ..world import ASC, CHAIN, World, require
from . import c02

ID = "C08"
LEVEL = "exploration"
RULE = (
    "generated: tree + 2-9 steps dominated by create / create -sf at generated directories (nesting in any order) with "
    "edits in between; every create observed as described. non-trivial = the invoked root has >= 2 nested histories "
    "below it of which two are siblings or form a chain of depth >= 2; distinct by canonical scenario hash."
)
ASSUMPTIONS = ["only default ignore patterns", "mtime order is used as the witness of write order (tmpfs, ns timestamps)"]
BUDGET = {"quick": (220, 4), "thorough": (48000, 16)}
REQUIRED = ["siblings", "chain>=2", "prefix_siblings", "sf", "-n", "child_after_parent", "ignored_child", "ignored_child_after_sf", "sf_into_ignored_child", "sf_far_apart_histories", "same_named_sibling_histories", "ignored_child_by_path_or_anchored_pattern"]

CFG = {
    "kinds": ["create"] * 7 + ["create_sf"] * 3 + ["put_new", "put_new", "overwrite", "mkdir", "mv", "rm"],
    "min_steps": 2,
    "max_steps": 9,
    "final": ["create"],
    "flags": {"-n": 0.2},
    "max_leaves": 16,
    "min_top": 2,
}


@st.composite
def _scn(draw):
    tree_extra = draw(st.sampled_from([None, "prefix", "prefix", "deep", "deep", "samename", "sf_failing_first"]))
    scn = draw(st.one_of(hist.scenarios(CFG), hist.scenarios(dict(CFG, final=["create_sf"]))))
    used = hist.top_names_used(scn)
    if tree_extra == "prefix":
        for n in draw(st.sampled_from([["s", "s2"], ["s", "s2", "s.txt"], ["A", "AA", "A A"]])):
            if n not in used:
                scn["tree"][n] = {"f" + n: "c" + n}
    elif tree_extra == "deep" and "d1" not in used:
        scn["tree"]["d1"] = {"d2": {"d3": {"d4": {"leaf": "x"}, "f3": "y"}, "f2": "z"}, "f1": "w"}
    pre = []
    if tree_extra == "samename" and not ({"cardA", "cardB", "clips"} & used):
        # sibling histories whose root folders carry the same name (so do their manifests, written in the same second)
        scn["tree"]["cardA"] = {"clips": {"a.mov": "from card A"}}
        scn["tree"]["cardB"] = {"clips": {"b.mov": "from card B", "more": {"c.mov": "c"}}}
        if draw(st.booleans()):
            scn["tree"]["clips"] = {"top.mov": "a third folder called clips"}
        names = [d for d in ("cardA/clips", "cardB/clips", "clips") if d.split("/")[0] in scn["tree"]]
        for d in draw(st.permutations(names)):
            pre.append({"op": "create", "root": d, "formats": draw(gen.formats(2)), "flags": []})
        scn["samename"] = True
    if tree_extra == "sf_failing_first" and not ({"fa", "fb", "fc"} & used):
        # one -sf run names files of three histories; the first named file was altered (exit 11) - the others are sealed
        # and their histories written all the same
        scn["tree"]["fa"] = {"a1.txt": "a1", "a2.txt": "a2"}
        scn["tree"]["fb"] = {"b1.txt": "b1"}
        scn["tree"]["fc"] = {"fd": {"d1.txt": "d1"}, "c1.txt": "c1"}
        for d in draw(st.permutations(["fa", "fb", "fc/fd"])):
            pre.append({"op": "create", "root": d, "formats": ["md5"], "flags": []})
        scn["steps"] = scn["steps"] + [{"op": "create", "root": "", "formats": ["md5"], "flags": []}, {"op": "overwrite", "path": "fa/a1.txt", "spec": "altered"},
                                       {"op": "create_sf", "root": "", "formats": ["md5"], "flags": [], "sf": ["fa/a1.txt"] + draw(st.permutations(["fb/b1.txt", "fc/fd/d1.txt", "fa/a2.txt"]))}]
    dirs = [d for d in gen.tree_dirs(scn["tree"]) if isinstance(_node(scn["tree"], d), dict)]
    if tree_extra in ("prefix", "deep") and dirs:
        picks = draw(st.lists(st.sampled_from(dirs), min_size=1, max_size=min(4, len(dirs)), unique=True))
        for d in picks:
            pre.append({"op": "create", "root": d, "formats": draw(gen.formats(2)), "flags": []})
    scn["steps"] = pre + scn["steps"]
    if tree_extra == "deep" and "d1" in scn["tree"] and isinstance(scn["tree"]["d1"], dict) and draw(st.booleans()):
        # one -sf run naming files whose owning histories are several nesting levels apart
        chain = ["d1", "d1/d2", "d1/d2/d3"]
        for d in draw(st.permutations(chain)):
            scn["steps"].append({"op": "create", "root": d, "formats": draw(gen.formats(2)), "flags": []})
        gm = hist.GenModel(scn["tree"])
        for s_ in scn["steps"]:
            gm.apply(s_)
        top = [f for f in sorted(gm.files) if "/" not in f]
        sel = [f for f in ["d1/d2/d3/f3", "d1/f1"] if f in gm.files] + (top[:1] if top else [])
        if len(sel) < 2:
            return scn
        scn["steps"].append({"op": "create_sf", "root": "", "formats": draw(gen.formats(2)), "flags": [], "sf": draw(st.permutations(sel))[: draw(st.integers(2, len(sel)))]})
        scn["far_apart_sf"] = True
    return scn


def _node(tree, path):
    n = tree
    for p in path.split("/"):
        n = n[p]
    return n


@st.composite
def _ignored_child(draw):
    """a nested history whose root folder the parent's recorded patterns exclude must stay out of later parent runs,
    also after a create -sf that leaves reference-only generations behind"""
    skip = draw(st.sampled_from(["Skip", "cache", "tmp.d"]))
    other = draw(st.sampled_from(["Other", "B", "keep"]))
    order = draw(st.permutations([skip, other]))
    return {
        "kind": "ignored_child",
        "skip": skip,
        "other": other,
        "order": list(order),
        # (a trailing-slash pattern does not match the folder entry itself - left unasserted as in C12 - so it is not used here)
        "pattern": draw(st.sampled_from([skip, skip, skip[:2] + "*", "?" + skip[1:]])),
        # where the excluded history lies and how the pattern names it: by its name (above), by its path from the root
        # ("grp/Skip"), or anchored to the root level ("/Skip" - a history of the same name one level down stays in)
        "placement": draw(st.sampled_from(["top", "top", "deep_path", "deep_path", "top_anchored", "top_anchored", "deep_name"])),
        "formats": draw(gen.formats(2)),
        "middle": draw(st.lists(st.sampled_from(["sf_other", "sf_top", "folder", "put", "sf_skip", "sf_skip"]), min_size=1, max_size=3)),
        "n": draw(st.booleans()),
        "pattern_n": draw(st.booleans()),  # the run that introduces the pattern is made with -n (after generations with directory hashes)
    }


def strategy(tier):
    return st.one_of(_scn(), _scn(), _scn(), _scn(), _ignored_child())


def run_ignored_child(scn, ctx):
    other = scn["other"]
    placement = scn.get("placement", "top")
    skip = ("grp/" if placement.startswith("deep") else "") + scn["skip"]
    decoy = None
    scn = dict(scn)
    if placement == "deep_path":
        scn["pattern"] = skip
        decoy = scn["skip"]  # a history of that name directly in the root is not what "grp/<name>" names
    elif placement == "top_anchored":
        scn["pattern"] = "/" + skip
        decoy = "grp/" + scn["skip"]
    with World("c08i") as w:
        w.build("R", {"top.txt": "t", other: {"o.txt": "o", "sub": {"p.txt": "p"}}})
        w.build("R/" + skip, {"s.txt": "in the ignored history", "d": {"x": "y"}})
        if decoy:
            w.build("R/" + decoy, {"keep.txt": "in a history that only shares the name"})
        for r in [skip if r == scn["skip"] else r for r in scn["order"]] + ([decoy] if decoy else []):
            res = w.create("R/" + r, ["md5"])
            require(res.exit_code == 0, "setup", res.brief(), res)
        if scn.get("pattern_n"):
            res = w.create("R", scn["formats"])
            require(res.exc is None and res.exit_code == 0, "setup", res.brief(), res)
        res = w.create("R", scn["formats"], extra=["-i", scn["pattern"]], flags=["-n"] if scn.get("pattern_n") else [])
        require(res.exc is None and res.exit_code == 0, "setup", res.brief(), res)
        k = 0
        for m in scn["middle"]:
            k += 1
            if m == "sf_other":
                res = w.create("R", scn["formats"], sf=["R/%s/sub/p.txt" % other])
            elif m == "sf_skip":
                # a file inside the excluded nested history named explicitly: it belongs to that (deepest) history
                ns = len(w.manifests("R/" + skip))
                nr = len(w.manifests("R"))
                res = w.create("R", scn["formats"], sf=["R/%s/d/x" % skip])
                require(res.exc is None and res.exit_code == 0, "ignored-child-run", "sf_skip: " + res.brief(), res)
                require(len(w.manifests("R/" + skip)) == ns + 1 and len(w.manifests("R")) == nr + 1, "which-histories",
                        "create -sf on %s/d/x: generations %d->%d in %r, %d->%d in the root" % (skip, ns, len(w.manifests("R/" + skip)), skip, nr, len(w.manifests("R"))), res)
                cdoc = w.read_history("R/" + skip)[-1][2]
                rdoc = w.read_history("R")[-1][2]
                require([r["path"] for r in cdoc["records"] if r["kind"] == "file"] == ["d/x"], "wrong-history", "the nested history records %r for -sf d/x" % [r["path"] for r in cdoc["records"]], res)
                require(not [r for r in rdoc["records"] if r["kind"] == "file"], "wrong-history", "the root records %r although the file belongs to the nested history" % [r["path"] for r in rdoc["records"]], res)
                ctx.event("sf_into_ignored_child")
                continue
            elif m == "sf_top":
                res = w.create("R", scn["formats"], sf=["R/top.txt"])
            elif m == "put":
                w.put("R/%s/new%d.txt" % (other, k), "n%d" % k)
                continue
            else:
                res = w.create("R", scn["formats"])
            require(res.exc is None and res.exit_code == 0, "ignored-child-run", "%s: %s" % (m, res.brief()), res)
        nskip = len(w.manifests("R/" + skip))
        ndecoy = len(w.manifests("R/" + decoy)) if decoy else 0
        before = w.asc_files()
        res = w.create("R", scn["formats"], flags=["-n"] if scn["n"] else [])
        require(res.exc is None and res.exit_code == 0, "ignored-child-run", "final folder run: " + res.brief(), res)
        if decoy:
            require(len(w.manifests("R/" + decoy)) == ndecoy + 1, "which-histories", "the nested history at %r is not what pattern %r names, but it received no generation" % (decoy, scn["pattern"]), res)
            require(any(p.startswith(decoy + "/") for p in w.read_history("R")[-1][2]["references"] and [r["path"] for r in w.read_history("R")[-1][2]["references"]]), "references", "root generation does not reference %r" % decoy, res)
            ctx.event("ignored_child_by_path_or_anchored_pattern")
        require(len(w.manifests("R/" + skip)) == nskip, "ignored-child-sealed", "the nested history at %r is excluded by the recorded pattern %r but received a new generation" % (skip, scn["pattern"]), res)
        doc = w.read_history("R")[-1][2]
        bad = [r["path"] for r in doc["records"] if r["path"] == skip or r["path"].startswith(skip + "/")]
        require(not bad, "ignored-child-sealed", "root generation records %r although pattern %r excludes them" % (bad, scn["pattern"]), res)
        refs = [r["path"] for r in doc["references"]]
        require(not any(p.startswith(skip + "/") for p in refs), "ignored-child-sealed", "root generation references the excluded history: %r" % refs, res)
        require(any(p.startswith(other + "/") for p in refs), "references", "root generation does not reference %r: %r" % (other, refs), res)
        require(scn["pattern"] in doc["patterns"], "ignored-child-sealed", "recorded pattern %r lost: %r" % (scn["pattern"], doc["patterns"]), res)
        ctx.event("ignored_child")
        if any(m.startswith("sf") for m in scn["middle"]):
            ctx.event("ignored_child_after_sf")
        ctx.mark_nontrivial()
        return w.trace


def observe(w, scn, step, before, res, ctx, recorded_before):
    c02.observe_create(w, scn, step, before, res, ctx)
    after = w.asc_files()
    root = hist.wpath(scn, step["root"])
    roots = [r for r in w.history_roots() if w.under(r, root)]
    new = {}  # history root -> (manifest rel path, doc)
    for p in after:
        if p not in before and p.endswith(".mhl"):
            h = posixpath.dirname(posixpath.dirname(p))
            require(h not in new, "one-generation", "history %r gained two manifests in one run" % h, res)
            import mhlverif.refxml as refxml

            new[h] = (p, refxml.read_manifest(after[p]))

    def parent_of(h):
        return w.deepest_root(h, roots, for_dir_entry=True)

    # (c) which histories wrote
    if step["op"] == "create":
        expected = set(roots)
    else:
        expected = set()
        for s in step["sf"]:
            sp = hist.wpath(scn, s)
            files = [sp] if sp in w.files else w.media_files(sp)
            for f in files:
                h = w.deepest_root(f, roots)
                while h is not None:
                    expected.add(h)
                    if h == root:
                        break
                    h = parent_of(h)
    require(set(new) == expected, "which-histories", "new generations in %s, expected %s (%s)" % (sorted(new), sorted(expected), res.brief()), res)

    # (b) nested roots as directory entries of the parent + (d) references
    for h, (mp, doc) in new.items():
        children = [c for c in new if c != h and parent_of(c) == h]
        refs = doc["references"]
        want = {}
        for c in children:
            cp = new[c][0]
            want[posixpath.relpath(cp, h)] = refhash.digest("c4", after[cp])
        got = {}
        for r in refs:
            require(r["path"] not in got, "references", "%s references %r twice" % (mp, r["path"]), res)
            got[r["path"]] = r["c4"]
        require(got == want, "references", "%s: references %r, expected %r" % (mp, got, want), res)
        if step["op"] == "create":
            for c in [c for c in roots if c != h and parent_of(c) == h]:
                relc = posixpath.relpath(c, h)
                recs = [r for r in doc["records"] if r["kind"] == "dir" and r["path"] == relc]
                require(len(recs) == 1, "child-root-entry", "%s: %d directory records for nested root %r" % (mp, len(recs), relc), res)
                require(c in new, "which-histories", "nested history %r wrote nothing" % c, res)
                child_root = new[c][1]["roothash"] or []
                key = lambda es: sorted((e["fmt"], e["digest"], e["structure"]) for e in es)
                require(key(recs[0]["entries"]) == key(child_root), "child-root-hash",
                        "%s: entry for nested root %r has %r, child's roothash is %r" % (mp, relc, key(recs[0]["entries"]), key(child_root)), res)
                if "-n" in step.get("flags", ()):
                    require(not recs[0]["entries"] and not child_root, "child-root-hash", "-n run recorded directory hashes for %r" % relc, res)
                else:
                    require(set(step["formats"]) == {e["fmt"] for e in child_root}, "child-root-hash",
                            "child %r roothash formats %s, requested %s" % (c, sorted(e["fmt"] for e in child_root), sorted(set(step["formats"]))), res)
        # (e) order: child manifest <= child chain <= parent manifest <= parent chain
        pm = os.stat(w.abs(mp)).st_mtime_ns
        pc = os.stat(w.abs(h + "/" + ASC + "/" + CHAIN)).st_mtime_ns
        require(pm <= pc, "write-order", "%s: chain written before manifest" % h, res)
        for c in children:
            cm = os.stat(w.abs(new[c][0])).st_mtime_ns
            cc = os.stat(w.abs(c + "/" + ASC + "/" + CHAIN)).st_mtime_ns
            require(cm <= cc <= pm, "write-order", "child %r (manifest %d, chain %d) not written before parent %r manifest (%d)" % (c, cm, cc, h, pm), res)

    # classification
    below = [r for r in roots if r != root]
    sib = False
    chain = False
    prefix = False
    for a in below:
        for b in below:
            if a < b and parent_of(a) == parent_of(b):
                sib = True
                if posixpath.dirname(a) == posixpath.dirname(b) and (posixpath.basename(b).startswith(posixpath.basename(a))):
                    prefix = True
            if a != b and w.under(b, a):
                chain = True
    if sib:
        ctx.event("siblings")
    if chain:
        ctx.event("chain>=2")
    if prefix:
        ctx.event("prefix_siblings")
    if step["op"] == "create_sf":
        ctx.event("sf")
    if "-n" in step.get("flags", ()):
        ctx.event("-n")
    return len(below) >= 2 and (sib or chain)


def run_case(scn, ctx):
    if scn.get("kind") == "ignored_child":
        return run_ignored_child(scn, ctx)
    nontrivial = False
    with World("c08") as w:
        hist.setup_world(w, scn)
        for step in scn["steps"]:
            if step["op"] in ("create", "create_sf"):
                before = w.asc_files()
                root = hist.wpath(scn, step["root"])
                if root not in w.history_roots() and any(w.under(root, r) for r in w.history_roots()) and w.media_files(root):
                    ctx.event("child_after_parent")
                res = hist.apply_step(w, scn, step)
                nontrivial |= bool(observe(w, scn, step, before, res, ctx, None))
                if scn.get("far_apart_sf") and step is scn["steps"][-1]:
                    ctx.event("sf_far_apart_histories")
                if scn.get("samename") and step["op"] == "create" and step["root"] == "":
                    ctx.event("same_named_sibling_histories")
            else:
                hist.apply_step(w, scn, step)
        ctx.mark_nontrivial(nontrivial)
        return w.trace

"""C16 - recorded size and timestamps describe the real file in any time zone.

Domain   files of size 0, 1, small and >= 1 MiB with modification times 1980-2037 (sub-second part included) in a
         generated time zone: UTC, fixed offsets -12:00..+14:00 (POSIX strings, half and quarter hours), IANA zones
         with daylight saving in both hemispheres, and custom POSIX DST rules whose switch days are placed relative
         to the real 'now' so that now and the file time fall on chosen sides of a switch.  Real clock (freezegun
         would fake the very computation under test); the zone is set with TZ + time.tzset() around the command.
         Later additions: the packing list's file name (UTC).
Oracle   size attribute present and equal to the bytes written (also 0).  Every lastmodificationdate, hashdate and
         creationdate has the xs:dateTime lexical form with an explicit offset; as an aware datetime it denotes
         floor(mtime) (file dates) or lies in the command's [start, end] window (hash / creation dates); its offset
         equals the zone's offset at that instant, taken from libc (time.localtime(ts).tm_gmtoff) and cross-checked
         with zoneinfo for IANA names (disagreement => case discarded and counted).  The manifest's file name
         carries a UTC time inside the window.  In a drawn share of cases the first file is then altered (other size,
         other mtime) and sealed again: the exit-11 generation's record must state the new size and mtime.
"""
import datetime
import os
import re
import time
import zoneinfo

from hypothesis import strategies as st

from .. import gen
from ..world import World, require

ID = "C16"
LEVEL = "exploration"
RULE = (
    "generated: (time zone, 1-4 files with size class and mtime, format list); oracle = os.stat + libc/zoneinfo offsets "
    "as described. non-trivial = zone has DST and some file time lies on the other side of a switch than now, or a "
    "size-0 file, or a non-UTC zone; distinct by canonical scenario hash."
)
ASSUMPTIONS = [
    "mtimes 1980-2037 (earlier, several IANA zones have second-granular offsets that ISO 8601 cannot carry)",
    "libc's tz database is the authority for the offset in force at an instant",
]
BUDGET = {"quick": (300, 4), "thorough": (200000, 16)}
REQUIRED = ["now_dst/file_std", "now_std/file_dst", "now_dst/file_dst", "now_std/file_std", "size0", "fixed_offset", "iana", "big_file", "near_switch", "within_hour_after_switch", "now_in_repeated_hour", "flatten_other_zone", "second_generation_other_zone", "altered_file_generation"]

IANA = ["Europe/Berlin", "America/New_York", "America/Los_Angeles", "Australia/Sydney", "Pacific/Auckland", "America/Sao_Paulo",
        "Asia/Kolkata", "Asia/Kathmandu", "Pacific/Kiritimati", "Etc/GMT+12", "Europe/London", "Africa/Cairo", "America/St_Johns",
        "Australia/Lord_Howe", "Asia/Tehran", "America/Santiago", "Pacific/Chatham", "Asia/Tokyo", "UTC"]
DT_RE = re.compile(r"^-?\d{4,}-\d\d-\d\dT\d\d:\d\d:\d\d(\.\d+)?(Z|[+-]\d\d:\d\d)$")
NAME_RE = re.compile(r"^\d{4}_.*_(\d{4}-\d{2}-\d{2}_\d{6})Z\.mhl$", re.S)


@st.composite
def _tz(draw):
    k = draw(st.integers(0, 9))
    if k == 0:
        return {"kind": "utc", "tz": "UTC"}
    if k in (1, 2):
        minutes = draw(st.sampled_from([-720, -570, -480, -300, -210, 60, 120, 210, 330, 345, 480, 525, 570, 765, 840]))
        sign = "-" if minutes >= 0 else "+"  # POSIX sign is inverted
        a = abs(minutes)
        name = "<%s%02d%02d>" % ("+" if minutes >= 0 else "-", a // 60, a % 60)
        return {"kind": "fixed", "tz": "%s%s%d:%02d" % (name, sign, a // 60, a % 60)}
    if k in (3, 4, 5):
        return {"kind": "iana", "tz": draw(st.sampled_from(IANA))}
    if k == 9 or k == 8:
        # a DST rule whose switch happened `ago` seconds before the command runs: after a fall-back 'now' then lies in
        # the second pass of the repeated hour, after a spring-forward just behind the gap
        return {"kind": "custom_now", "std_minutes": draw(st.sampled_from([-300, 0, 60, 330])), "ago": draw(st.sampled_from([5, 600, 1800, 3500])),
                "which": draw(st.sampled_from(["fall_back", "fall_back", "spring_forward"]))}
    # custom rule relative to now; resolved at run time
    return {"kind": "custom", "std_minutes": draw(st.sampled_from([-480, -300, 0, 60, 330, 600])), "now_in_dst": draw(st.booleans()),
            "half": draw(st.integers(20, 150))}


@st.composite
def _scn(draw):
    files = draw(
        st.lists(
            st.fixed_dictionaries(
                {
                    "name": gen.names("full"),
                    "size": st.sampled_from([0, 0, 1, 7, 300, 4096, 70000, (1 << 20) + 3]),
                    "mtime": st.integers(315532800, 2145916800),
                    "frac": st.sampled_from([0, 0, 0.25, 0.5, 0.999]),
                    "near_now_days": st.one_of(st.none(), st.integers(-300, 0)),
                    "near_switch": st.one_of(
                        st.none(),
                        st.none(),
                        st.fixed_dictionaries(
                            {"year": st.integers(1985, 2036), "idx": st.integers(0, 1), "delta": st.one_of(st.sampled_from([-3601, -3600, -1800, -1, 0, 1, 900, 1799, 1800, 3599, 3600, 3601]), st.integers(-7200, 7200))}
                        ),
                    ),
                }
            ),
            min_size=1,
            max_size=4,
            unique_by=lambda f: f["name"],
        )
    )
    if draw(st.integers(0, 3)) == 0:
        y, k = draw(st.integers(1985, 2036)), draw(st.integers(1, 3599))
        for idx in (0, 1):
            files.append({"name": "fold %d first pass.mov" % idx, "size": 2, "mtime": 1000000000, "frac": 0, "near_now_days": None, "near_switch": {"year": y, "idx": idx, "delta": -k}})
            files.append({"name": "fold %d second pass.mov" % idx, "size": 2, "mtime": 1000000000, "frac": 0, "near_now_days": None, "near_switch": {"year": y, "idx": idx, "delta": 3600 - k}})
    return {"tz": draw(_tz()), "files": files, "formats": draw(gen.formats(2)), "sub": draw(st.booleans()),
            "flatten_tz": draw(st.sampled_from([None, None, "UTC", "Europe/Berlin", "America/Los_Angeles", "Asia/Kolkata", "Australia/Sydney", "<-0330>3:30"])),
            # a second generation right afterwards under another zone (its local time may read *earlier* than the first
            # generation's, as after the end of daylight saving or on a machine in another zone)
            "alter": draw(st.sampled_from([None, None, {"grow": 0, "dt": -86400 * 200}, {"grow": 7, "dt": 3600 * 24 * 91}, {"grow": -1, "dt": 1}])),
            "second_tz": draw(st.sampled_from([None, None, "<-02>2", "<+01>-1", "Pacific/Pago_Pago", "Pacific/Kiritimati", "America/St_Johns", "UTC"]))}


def strategy(tier):
    return _scn()


def enumerated(tier):
    zones = sorted(z for z in zoneinfo.available_timezones() if not z.startswith(("posix/", "right/")) and z not in ("localtime", "Factory"))
    if tier == "quick":
        zones = zones[::12]
    for i, z in enumerate(zones):
        y = 1985 + (i * 7) % 50
        files = [
            {"name": "january.mov", "size": 3, "mtime": 1579093200, "frac": 0, "near_now_days": None, "near_switch": None},
            {"name": "july.mov", "size": 0, "mtime": 1594818000, "frac": 0.5, "near_now_days": None, "near_switch": None},
            {"name": "switch a.mov", "size": 1, "mtime": 1000000000, "frac": 0, "near_now_days": None, "near_switch": {"year": y, "idx": 0, "delta": 1800}},
            {"name": "switch b.mov", "size": 1, "mtime": 1000000000, "frac": 0, "near_now_days": None, "near_switch": {"year": y, "idx": 1, "delta": 1800}},
            {"name": "switch c.mov", "size": 1, "mtime": 1000000000, "frac": 0, "near_now_days": None, "near_switch": {"year": y, "idx": 1, "delta": -1}},
            # the same wall-clock reading in both passes of the repeated hour (whichever of the two switches falls back)
            {"name": "fold 0 a.mov", "size": 1, "mtime": 1000000000, "frac": 0, "near_now_days": None, "near_switch": {"year": y, "idx": 0, "delta": -1200}},
            {"name": "fold 0 b.mov", "size": 1, "mtime": 1000000000, "frac": 0, "near_now_days": None, "near_switch": {"year": y, "idx": 0, "delta": 2400}},
            {"name": "fold 1 a.mov", "size": 1, "mtime": 1000000000, "frac": 0, "near_now_days": None, "near_switch": {"year": y, "idx": 1, "delta": -1200}},
            {"name": "fold 1 b.mov", "size": 1, "mtime": 1000000000, "frac": 0, "near_now_days": None, "near_switch": {"year": y, "idx": 1, "delta": 2400}},
        ]
        yield {"tz": {"kind": "iana", "tz": z}, "files": files, "formats": ["md5"], "sub": False}


def _posix_custom(spec, now):
    """POSIX TZ string with a DST period of 2*half days that contains / does not contain today"""
    def j(ts):
        lt = time.gmtime(ts)
        d = lt.tm_yday
        leap = lt.tm_year % 4 == 0 and (lt.tm_year % 100 != 0 or lt.tm_year % 400 == 0)
        if leap and d > 59:
            d -= 1  # Jn never counts February 29
        return max(1, min(365, d))

    half = spec["half"] * 86400
    if spec["now_in_dst"]:
        start, end = j(now - half), j(now + half)
    else:
        start, end = j(now + half // 2), j(now + half // 2 + half)
    if start == end:
        end = end % 365 + 1
    m = spec["std_minutes"]

    def off(minutes):
        sign = "-" if minutes >= 0 else ""
        a = abs(minutes)
        return "%s%d:%02d" % (sign, a // 60, a % 60)

    return "AAA%sBBB%s,J%d/0,J%d/0" % (off(m), off(m + 60), start, end)


def _switches(year):
    """instants in the given year at which the UTC offset of the current zone changes (libc), to the second"""
    import calendar

    t = calendar.timegm((year, 1, 1, 0, 0, 0))
    end = calendar.timegm((year + 1, 1, 1, 0, 0, 0))
    out = []
    prev = time.localtime(t).tm_gmtoff
    while t < end:
        nxt = t + 86400
        off = time.localtime(nxt).tm_gmtoff
        if off != prev:
            lo, hi = t, nxt
            while hi - lo > 1:
                mid = (lo + hi) // 2
                if time.localtime(mid).tm_gmtoff == prev:
                    lo = mid
                else:
                    hi = mid
            out.append(hi)
            prev = off
        t = nxt
    return out


def _posix_now(spec, now):
    """POSIX TZ string whose DST end (or start) lies `ago` seconds before now, to the second; None if the wall-clock
    arithmetic would cross a day boundary (then the case is skipped and counted)"""
    m = spec["std_minutes"]
    switch = now - spec["ago"]
    # wall clock shown just before the switch: DST time for a fall-back, standard time for a spring-forward
    wall_off = (m + 60) * 60 if spec["which"] == "fall_back" else m * 60
    wt = time.gmtime(switch + wall_off)
    day = wt.tm_yday
    leap = wt.tm_year % 4 == 0 and (wt.tm_year % 100 != 0 or wt.tm_year % 400 == 0)
    if leap and day > 59:
        day -= 1
    if leap and wt.tm_yday == 60:
        return None
    day = max(1, min(365, day))
    other = (day + 150 - 1) % 365 + 1
    hms = "%d:%02d:%02d" % (wt.tm_hour, wt.tm_min, wt.tm_sec)

    def off(minutes):
        sign = "-" if minutes >= 0 else ""
        a = abs(minutes)
        return "%s%d:%02d" % (sign, a // 60, a % 60)

    if spec["which"] == "fall_back":
        return "AAA%sBBB%s,J%d/0,J%d/%s" % (off(m), off(m + 60), other, day, hms)
    return "AAA%sBBB%s,J%d/%s,J%d/0" % (off(m), off(m + 60), day, hms, other)


def _parse(s):
    return datetime.datetime.fromisoformat(s.replace("Z", "+00:00"))


def run_case(scn, ctx):
    now = time.time()
    tzspec = scn["tz"]
    if tzspec["kind"] == "custom_now":
        tz = _posix_now(tzspec, int(now))
        if tz is None:
            ctx.event("custom_now_skipped")
            return None
    else:
        tz = tzspec["tz"] if tzspec["kind"] != "custom" else _posix_custom(tzspec, now)
    old = os.environ.get("TZ")
    with World("c16") as w:
        try:
            os.environ["TZ"] = tz
            time.tzset()
            mt = {}
            for f in scn["files"]:
                rel = "R/" + ("sub/" if scn["sub"] else "") + f["name"]
                t = f["mtime"] if f["near_now_days"] is None else int(now) + f["near_now_days"] * 86400
                ns = f.get("near_switch")
                if ns:
                    sw = _switches(ns["year"])
                    if sw:
                        t = sw[ns["idx"] % len(sw)] + ns["delta"]
                        ctx.event("near_switch")
                        if 0 <= ns["delta"] < 3600:
                            ctx.event("within_hour_after_switch")
                t = t + f["frac"]
                w.put(rel, ["a5", f["size"]], mtime=t)
                mt[rel] = t
            if scn["sub"]:
                dt = scn["files"][0]["mtime"]
                os.utime(w.abs("R/sub"), (dt, dt))
                mt["R/sub"] = dt
            if tzspec["kind"] == "custom_now":
                a, b = time.localtime(now - tzspec["ago"] - 2), time.localtime(now)
                if a.tm_gmtoff == b.tm_gmtoff:
                    ctx.event("custom_now_rule_not_effective")
                elif tzspec["which"] == "fall_back":
                    ctx.event("now_in_repeated_hour")
            t0 = time.time()
            res = w.create("R", scn["formats"])
            t1 = time.time()
            require(res.exc is None and res.exit_code == 0, "create", res.brief(), res)
            (n, mp, doc), = w.read_history("R")

            def gmtoff(ts):
                return time.localtime(ts).tm_gmtoff

            cur = {"name": tz, "iana": tzspec["kind"] == "iana"}

            def check_date(text, what, lo, hi, exact=None):
                require(text is not None and DT_RE.match(text) is not None, "lexical", "%s %r is not an xs:dateTime with explicit offset" % (what, text), res)
                d = _parse(text)
                ts = d.timestamp()
                if exact is not None:
                    require(ts == exact, "instant", "%s %r denotes %s, file time is %s (TZ=%s)" % (what, text, ts, exact, tz), res)
                else:
                    require(lo <= ts <= hi, "instant", "%s %r denotes %s, outside the command window [%s, %s] (TZ=%s)" % (what, text, ts, lo, hi, tz), res)
                want = gmtoff(ts)
                if cur["iana"]:
                    zi = datetime.datetime.fromtimestamp(ts, zoneinfo.ZoneInfo(cur["name"])).utcoffset().total_seconds()
                    if zi != want:
                        ctx.event("oracles_disagree")
                        return
                got = d.utcoffset().total_seconds()
                require(got == want, "offset", "%s %r carries offset %+d s, zone %s had %+d s at that instant" % (what, text, got, cur["name"], want), res)

            check_date(doc["creatorinfo"].get("creationdate"), "creationdate", int(t0), t1)
            recs = {r["path"]: r for r in doc["records"]}
            now_dst = time.localtime(now).tm_isdst > 0
            sides = set()
            for f in scn["files"]:
                relp = ("sub/" if scn["sub"] else "") + f["name"]
                r = recs.get(relp)
                require(r is not None, "record", "no record for %r" % relp, res)
                require(r["size"] == str(f["size"]), "size", "%r: size attribute %r, file has %d bytes" % (relp, r["size"], f["size"]), res)
                exact = float(int(mt["R/" + relp] // 1))
                check_date(r["lastmod"], "lastmodificationdate of %r" % relp, None, None, exact=exact)
                for e in r["entries"]:
                    check_date(e["hashdate"], "hashdate of %r" % relp, t0 - 0.001, t1)
                file_dst = time.localtime(exact).tm_isdst > 0
                sides.add("now_%s/file_%s" % ("dst" if now_dst else "std", "dst" if file_dst else "std"))
            if scn["sub"]:
                r = recs.get("sub")
                require(r is not None, "record", "no record for directory 'sub'", res)
                check_date(r["lastmod"], "lastmodificationdate of directory sub", None, None, exact=float(mt["R/sub"]))
            if scn.get("second_tz"):
                os.environ["TZ"] = scn["second_tz"]
                time.tzset()
                cur = {"name": scn["second_tz"], "iana": "/" in scn["second_tz"]}
                s0 = time.time()
                res = w.create("R", scn["formats"])
                s1 = time.time()
                require(res.exc is None and res.exit_code == 0, "create", "second generation under %s: %s" % (scn["second_tz"], res.brief()), res)
                d2 = w.read_history("R")[-1][2]
                check_date(d2["creatorinfo"].get("creationdate"), "creationdate of generation 2", int(s0), s1)
                for r2 in d2["records"]:
                    for e in r2["entries"] if r2["kind"] == "file" else []:
                        check_date(e["hashdate"], "hashdate of %r in generation 2" % r2["path"], s0 - 0.001, s1)
                    if r2["kind"] == "file" and ("R/" + r2["path"]) in mt:
                        check_date(r2["lastmod"], "lastmodificationdate of %r in generation 2" % r2["path"], None, None, exact=float(int(mt["R/" + r2["path"]] // 1)))
                ctx.event("second_generation_other_zone")
                os.environ["TZ"] = tz
                time.tzset()
                cur = {"name": tz, "iana": tzspec["kind"] == "iana"}
            # flatten the history under a different zone: the packing list's dates must still denote the same instants
            if scn.get("flatten_tz"):
                os.environ["TZ"] = scn["flatten_tz"]
                time.tzset()
                cur = {"name": scn["flatten_tz"], "iana": "/" in scn["flatten_tz"]}
                f0 = time.time()
                fres = w.flatten("R", "_flat/out")
                f1 = time.time()
                require(fres.exc is None and fres.exit_code == 0, "flatten", fres.brief(), fres)
                import glob as _glob

                from .. import refxml as _refxml

                pls = _glob.glob(os.path.join(w.abs("_flat/out"), "*", "packinglist_*.mhl"))
                require(len(pls) == 1, "flatten", "packing lists: %r" % pls, fres)
                # the packing list's file name carries the UTC time of the flatten run, like the generations' names
                pm = re.match(r"^packinglist_.*_(\d{4}-\d{2}-\d{2}_\d{6})Z\.mhl$", os.path.basename(pls[0]), re.S)
                require(pm is not None, "name", "packing list name %r" % os.path.basename(pls[0]), fres)
                pts = datetime.datetime.strptime(pm.group(1), "%Y-%m-%d_%H%M%S").replace(tzinfo=datetime.timezone.utc).timestamp()
                require(int(f0) <= pts <= f1, "name-utc", "packing list name time %s is not the UTC time of the flatten run [%s, %s] (TZ=%s)" % (pm.group(1), f0, f1, scn["flatten_tz"]), fres)
                pdoc = _refxml.read_manifest(pls[0])
                res = fres
                orig = {r["path"]: r for r in doc["records"] if r["kind"] == "file"}
                for r in pdoc["records"]:
                    o = orig.get(r["path"])
                    require(o is not None, "flatten-record", "packing list has %r which the history has not" % r["path"], fres)
                    require(r["size"] == o["size"], "flatten-size", "%r: size %r in the packing list, %r in the history" % (r["path"], r["size"], o["size"]), fres)
                    if r["lastmod"] is not None:
                        exact = float(int(mt["R/" + r["path"]] // 1))
                        check_date(r["lastmod"], "flattened lastmodificationdate of %r" % r["path"], None, None, exact=exact)
                    oe = {e["fmt"]: e for e in o["entries"]}
                    for e in r["entries"]:
                        require(DT_RE.match(e["hashdate"] or "") is not None, "lexical", "flattened hashdate %r" % e["hashdate"], fres)
                        require(_parse(e["hashdate"]).timestamp() == _parse(oe[e["fmt"]]["hashdate"]).timestamp(), "flatten-instant",
                                "%r %s: hash date %s in the history became %s in the packing list (TZ %s -> %s)" % (r["path"], e["fmt"], oe[e["fmt"]]["hashdate"], e["hashdate"], tz, scn["flatten_tz"]), fres)
                        check_date(e["hashdate"], "flattened hashdate of %r" % r["path"], t0 - 0.001, t1)
                check_date(pdoc["creatorinfo"].get("creationdate"), "flatten creationdate", int(f0), f1)
                ctx.event("flatten_other_zone")
                os.environ["TZ"] = tz
                time.tzset()
                cur = {"name": tz, "iana": tzspec["kind"] == "iana"}
            m = NAME_RE.match(os.path.basename(mp))
            require(m is not None, "name", "manifest name %r" % mp, res)
            ts = datetime.datetime.strptime(m.group(1), "%Y-%m-%d_%H%M%S").replace(tzinfo=datetime.timezone.utc).timestamp()
            require(int(t0) <= ts <= t1, "name-utc", "file name time %s is not the UTC time of the run [%s, %s] (TZ=%s)" % (m.group(1), t0, t1, tz), res)
            if scn.get("alter"):
                # a run that ends with exit 11: the record of the altered file describes the file as it is now
                f = scn["files"][0]
                rel = "R/" + ("sub/" if scn["sub"] else "") + f["name"]
                newsize = f["size"] + scn["alter"]["grow"]
                if newsize < 0 or (newsize == 0 and f["size"] == 0):
                    newsize = f["size"] + 1
                dt_ = scn["alter"]["dt"]
                if not (315532800 <= int(mt[rel]) + dt_ <= 2145916800):
                    dt_ = -dt_
                newt = float(int(mt[rel]) + dt_) + f["frac"]
                w.put(rel, ["5a", newsize], mtime=newt)
                a0 = time.time()
                res = w.create("R", scn["formats"])
                a1 = time.time()
                require(res.exc is None and res.exit_code == 11, "create", "generation after altering %r: %s" % (rel, res.brief()), res)
                d3 = w.read_history("R")[-1][2]
                r3 = [r for r in d3["records"] if r["kind"] == "file" and "R/" + r["path"] == rel]
                require(len(r3) == 1, "record", "no record for the altered %r" % rel, res)
                require(r3[0]["size"] == str(newsize), "size", "altered %r: size attribute %r, file has %d bytes" % (rel, r3[0]["size"], newsize), res)
                check_date(r3[0]["lastmod"], "lastmodificationdate of the altered %r" % rel, None, None, exact=float(int(newt // 1)))
                require(any(e["action"] == "failed" for e in r3[0]["entries"]), "record", "altered file's record has no failed entry", res)
                for e in r3[0]["entries"]:
                    check_date(e["hashdate"], "hashdate of the altered %r" % rel, a0 - 0.001, a1)
                check_date(d3["creatorinfo"].get("creationdate"), "creationdate of the failing generation", int(a0), a1)
                ctx.event("altered_file_generation")
        finally:
            if old is None:
                os.environ.pop("TZ", None)
            else:
                os.environ["TZ"] = old
            time.tzset()
        has_dst = any(s in sides for s in ("now_dst/file_std", "now_std/file_dst", "now_dst/file_dst"))
        for s in sides:
            ctx.event(s)
        if any(f["size"] == 0 for f in scn["files"]):
            ctx.event("size0")
        if any(f["size"] >= 1 << 20 for f in scn["files"]):
            ctx.event("big_file")
        ctx.event({"fixed": "fixed_offset", "iana": "iana", "custom": "custom_rule", "utc": "utc", "custom_now": "now_right_after_switch"}[tzspec["kind"]])
        ctx.mark_nontrivial(("now_dst/file_std" in sides or "now_std/file_dst" in sides) or any(f["size"] == 0 for f in scn["files"]) or tzspec["kind"] != "utc")
        return w.trace + [["TZ", tz]]

"""C19 - info reports the recorded history truthfully.

Domain   generated histories (nested at any directory, several generations, failed and new-format entries through
         alter / restore / changing formats, -sf generations); then `info ROOT` for every history root and
         `info -sf FILE` for every recorded file (without root => nearest enclosing history; and with that root
         given explicitly); folders and files without any history.
         Later additions: 2-3 -sf options in one call; -v; the root named relative to the working directory; generations
         written under one time zone and read under another; folders above all histories (exit 30).
Oracle   stdout parsed into blocks ('Info with history at path', 'Child History at <path>:', 'Generation n (date)'):
         the blocks must name exactly the histories at or below the root, each exactly once, each listing exactly
         the generations and creation dates that the independent reader finds in the manifests, ascending.
         -sf: exactly one line per (generation, format, digest, action) recorded for that path in the nearest
         enclosing history, in generation order.  The same with -v (which only adds detail lines) and with the
         folder named relative to the working directory.  Exit 30 without history (both forms), also for a
         folder above all histories.  Two or three -sf options in one call print one such block per file, in order.
"""
import posixpath
import re

from hypothesis import strategies as st

from .. import gen, hist
from ..world import World, require

ID = "C19"
LEVEL = "exploration"
RULE = (
    "generated: history (create / create -sf at any directory, put, overwrite, restore) -> info on every history root and "
    "info -sf on every recorded file (<= 10 per case) compared with the manifests read independently. non-trivial = "
    ">= 2 histories, or a file with >= 3 digest lines carrying >= 2 different actions; distinct by canonical scenario hash."
)
ASSUMPTIONS = ["names contain no line breaks (control characters are outside the domain)"]
BUDGET = {"quick": (220, 4), "thorough": (20000, 16)}
REQUIRED = ["nested", "multi_action_file", "no_history", "sf_noroot", "sf_root", "sf_relative", "deep_nesting", "renamed_file", "bulk_history", "symlinked_file", "sf_multi_noroot", "sf_multi_root", "no_own_history_but_below", "verbose", "sf_verbose", "root_relative", "read_in_other_zone"]

CFG = {
    "kinds": ["create"] * 6 + ["create_sf"] * 2 + ["put_new", "overwrite", "overwrite", "restore"],
    "min_steps": 1,
    "max_steps": 9,
    "flags": {"-n": 0.15},
    "formats": gen.formats(3),
    "min_top": 1,
}
GEN_RE = re.compile(r"^  Generation (\d+) \((.*)\)$")
SFV_RE = re.compile(r"^  Generation (\d+) \((.*?)\) (\w+): (\S+) \((\w+)\) ?$")
SF_RE = re.compile(r"^  Generation (\d+) \((.*?)\) (\w+): (\S+) \((\w+)\)$")


@st.composite
def _scn(draw):
    scn = draw(hist.scenarios_deep(CFG))
    if draw(st.integers(0, 2)) == 0:
        # a recorded file is renamed and sealed with rename detection: info -sf NEWNAME lists what is recorded under NEWNAME
        m = hist.GenModel(scn["tree"])
        for s_ in scn["steps"]:
            m.apply(s_)
        if m.roots and "renameme.mov" not in hist.top_names_used(scn):
            # (rename detection identifies files by their first recorded digest: a fresh file with content no other file
            # has, sealed once and then renamed - the precondition C17 states)
            parent = draw(st.sampled_from([""] + sorted(m.dirs)))
            src = (parent + "/" if parent else "") + "renameme.mov"
            dst = src + ".renamed"
            scn["steps"].append({"op": "put_new", "path": src, "spec": "content that only the renamed file has"})
            scn["steps"].append({"op": "create", "root": "", "formats": draw(gen.formats(2)), "flags": []})
            scn["steps"].append({"op": "mv", "src": src, "dst": dst})
            scn["steps"].append({"op": "create", "root": "", "formats": draw(gen.formats(2)), "flags": ["-dr"]})
            if draw(st.booleans()):
                scn["steps"].append({"op": "create", "root": "", "formats": draw(gen.formats(2)), "flags": []})
    scn["cwd"] = draw(st.sampled_from(["parent", "filedir", "base"]))
    if draw(st.integers(0, 3)) == 0:
        scn["root"] = draw(st.sampled_from(["Shoot [day 1]", "card[2]", "x[!a]y", "st*r", "wh?t", "{a,b}"]))  # names special to glob
    # a symbolic link to a file in another folder (possibly in another history): info -sf LINK is about the link's own records
    scn["symlink"] = draw(st.booleans())
    # (zone the generations are written in, zone info runs in) - the dates are printed as the manifests hold them
    scn["tz"] = draw(st.sampled_from([[None, None], [None, None], ["<+09>-9", "<+01>-1"], ["America/Los_Angeles", "Asia/Kolkata"], ["UTC", "Pacific/Kiritimati"], ["Australia/Lord_Howe", "UTC"]]))
    return scn


def strategy(tier):
    bulk = st.fixed_dictionaries({"kind": st.just("bulk"), "n": st.integers(170, 260), "seed": st.integers(0, 2**31), "formats": st.lists(gen.format_sets(3), min_size=2, max_size=2)})
    return st.one_of(*([_scn()] * 24 + [bulk]))


def run_bulk(scn, ctx):
    """a history whose manifests are far larger than one read block of the XML parser: every file's lines are checked"""
    import random

    rnd = random.Random(scn["seed"])
    with World("c19b") as w:
        names = []
        for i in range(scn["n"]):
            d = "reel %d" % (i % 4)
            nm = "%s/%s clip_%05d_%s.mov" % (d, "x" * rnd.randint(0, 30), i, "".join(rnd.choice("abcdefghijk é&") for _ in range(rnd.randint(2, 20))).strip())
            names.append(nm)
            w.put("R/" + nm, "content %d" % i)
        for fm in scn["formats"]:
            res = w.create("R", fm)
            require(res.exc is None and res.exit_code == 0, "setup", res.brief(), res)
        docs = w.read_history("R")
        want = {}
        for n, p, d in docs:
            for rec in d["records"]:
                if rec["kind"] == "file":
                    want.setdefault(rec["path"], []).extend((n, d["creatorinfo"].get("creationdate"), e["fmt"], e["digest"], e["action"]) for e in rec["entries"])
        res = w.info("R", sf=["R/" + nm for nm in names])
        require(res.exc is None and res.exit_code == 0, "sf-exit", res.brief()[:300], res)
        got = {}
        cur = None
        for l in res.stdout.split("\n")[1:]:
            if l == "":
                continue
            m = SF_RE.match(l)
            if m:
                got[cur].append((int(m.group(1)), m.group(2), m.group(3), m.group(4), m.group(5)))
            elif l.endswith(":"):
                cur = l[:-1]
                got[cur] = []
            else:
                require(False, "sf-format", "unexpected line %r" % l[:200], res)
        require(set(got) == set(want), "sf-path", "info -sf lists %d files, %d recorded" % (len(got), len(want)), res)
        for pth in want:
            require(sorted(got[pth]) == sorted(want[pth]), "sf-lines", "info -sf %r prints %r, manifests hold %r" % (pth, got[pth], want[pth]), res)
        size = max(len(b) for p, b in w.asc_files().items() if p.endswith(".mhl"))
        ctx.event("bulk_history")
        if size > 3 * 32768:
            ctx.event("manifest>96KiB")
        ctx.mark_nontrivial()
        return w.trace[-6:]


def parse_info(out, verbose=False):
    """-> list of (history path, [(n, date)])"""
    blocks = []
    cur = None
    for l in out.split("\n"):
        if l.startswith("Info with history at path: "):
            cur = (l[len("Info with history at path: "):], [])
            blocks.append(cur)
        elif l.startswith("Child History at ") and l.endswith(":"):
            cur = (l[len("Child History at "):-1], [])
            blocks.append(cur)
        else:
            m = GEN_RE.match(l)
            if m and cur is not None:
                cur[1].append((int(m.group(1)), m.group(2)))
            elif verbose and (l.startswith("     CreatorInfo: ") or l.startswith("     ProcessInfo: ")):
                continue
            elif l.strip():
                blocks.append(("?", [l]))
    return blocks


def _set_tz(name):
    import os as _os
    import time as _time

    if name is None:
        _os.environ.pop("TZ", None)
    else:
        _os.environ["TZ"] = name
    _time.tzset()


def run_case(scn, ctx):
    if scn.get("kind") == "bulk":
        return run_bulk(scn, ctx)
    import os as _os

    old_tz = _os.environ.get("TZ")
    try:
        return _run_case(scn, ctx)
    finally:
        _set_tz(old_tz)


def _run_case(scn, ctx):
    feats = set()
    tzs = scn.get("tz") or [None, None]
    with World("c19") as w:
        if tzs[0]:
            _set_tz(tzs[0])  # the zone the generations are written in
        hist.setup_world(w, scn)
        top = scn["root"]
        # no history yet
        res = w.info(top)
        require(res.exit_code == 30 and res.exc is None, "no-history", "info on a folder without history: " + res.brief(), res)
        anyfile = next(iter(sorted(w.files)), None)
        if anyfile:
            res = w.info(None, sf=[anyfile])
            require(res.exit_code == 30 and res.exc is None, "no-history", "info -sf without any history: " + res.brief(), res)
            res = w.info(top, sf=[anyfile])
            require(res.exit_code == 30 and res.exc is None, "no-history", "info -sf ROOT without history: " + res.brief(), res)
        feats.add("no_history")
        if scn.get("symlink") and len(w.files) >= 1 and "link to.mov" not in scn["tree"]:
            targets = sorted(w.files)
            w.symlink(top + "/link to.mov", targets[len(targets) // 2])
            feats.add("symlinked_file")
        for step in scn["steps"]:
            hist.apply_step(w, scn, step)
        if tzs[1]:
            _set_tz(tzs[1])  # ... and the zone of the machine that reads them: the dates are reported as written
            feats.add("read_in_other_zone")
        roots = w.history_roots()
        docs = {r: w.read_history(r) for r in roots}
        if len(roots) >= 2:
            feats.add("nested")
        if any(sum(1 for r in roots if w.under(x, r)) >= 3 for x in roots):
            feats.add("deep_nesting")
        for r, form in [(r, f) for r in roots for f in ("abs", "verbose", "relative")]:
            if form == "relative":
                # the folder named relative to the working directory
                import os as _os

                a0 = _os.path.basename(w.abs(r))
                res = w.run("info", ["./" + a0 if a0.startswith("-") else a0], cwd=_os.path.dirname(w.abs(r)))
                feats.add("root_relative")
            elif form == "verbose":
                res = w.info(r, flags=["-v"])
                feats.add("verbose")
            else:
                res = w.info(r)
            require(res.exc is None and res.exit_code == 0, "info-exit", res.brief(), res)
            blocks = parse_info(res.stdout, verbose=(form == "verbose"))
            junk = [b for b in blocks if b[0] == "?"]
            require(not junk, "info-format", "unexpected output lines: %r" % junk[:3], res)
            want = {w.abs(h): [(n, d["creatorinfo"].get("creationdate")) for n, p, d in docs[h]] for h in roots if w.under(h, r)}
            got = {}
            for path, gens in blocks:
                if form == "relative":
                    import posixpath as _pp

                    path = _pp.normpath(path)  # (the folder is printed as typed: cwd + "./-name")
                require(path not in got, "info-histories", "history %r listed twice" % path, res)
                got[path] = gens
            require(set(got) == set(want), "info-histories", "info lists histories %s, on disk %s" % (sorted(got), sorted(want)), res)
            for h in want:
                require(got[h] == want[h], "info-generations", "history %s: info lists %r, manifests say %r" % (h, got[h], want[h]), res)
                require([n for n, _ in got[h]] == sorted(n for n, _ in got[h]), "info-order", "generations not ascending: %r" % got[h], res)
        # a folder that has no history of its own and lies in none - although histories exist below it - has no history
        import os as _os
        cand = [""] + sorted(d for d in w.dirs if w.deepest_root(d, roots) is None)
        for d in cand:
            if d == "" or (_os.path.isdir(w.abs(d)) and any(w.under(r, d) for r in roots)):
                res = w.info(d) if d else w.run("info", [w.base])
                require(res.exit_code == 30 and res.exc is None, "no-history", "info on %r, which has no history of its own (histories below: %s): %s" % (d or "<parent of the root>", [r for r in roots if d == "" or w.under(r, d)][:3], res.brief()), res)
                feats.add("no_own_history_but_below")
        # per file
        recorded = {}
        for h in roots:
            for n, p, d in docs[h]:
                for rec in d["records"]:
                    if rec["kind"] == "file":
                        recorded.setdefault((h, rec["path"]), []).extend(
                            (n, d["creatorinfo"].get("creationdate"), e["fmt"], e["digest"], e["action"]) for e in rec["entries"]
                        )
        checked = 0
        for (h, relp), lines in sorted(recorded.items()):
            full = h + "/" + relp
            if full not in w.files:
                continue
            nearest = w.deepest_root(full, roots)
            if nearest != h:
                continue  # recorded earlier in an outer history; the nearest enclosing one is what the statement covers
            if checked >= 10:
                break
            checked += 1
            import os as _os

            for form in ("noroot", "root", "relative"):
                if form == "relative":
                    # the file named relative to the working directory (which is not the history root)
                    cwd = {"parent": _os.path.dirname(w.abs(h)) if h else w.base, "filedir": _os.path.dirname(w.abs(full)), "base": w.base}[scn.get("cwd", "base")]
                    relarg = _os.path.relpath(w.abs(full), cwd)
                    if relarg.startswith("-"):
                        relarg = "./" + relarg
                    res = w.run("info", ["-sf", relarg], cwd=cwd)
                else:
                    res = w.info(None if form == "noroot" else h, sf=[full])
                require(res.exc is None and res.exit_code == 0, "sf-exit", res.brief(), res)
                out = res.stdout.split("\n")
                if out and out[-1] == "":
                    out.pop()
                require(len(out) >= 2 and out[0] == "Info with history at path: " + w.abs(h), "sf-history", "first line %r, nearest history %r" % (out[:1], w.abs(h)), res)
                require(out[1] == relp + ":", "sf-path", "path line %r, expected %r" % (out[1], relp + ":"), res)
                got = []
                for l in out[2:]:
                    m = SF_RE.match(l)
                    require(m is not None, "sf-format", "unexpected line %r" % l, res)
                    got.append((int(m.group(1)), m.group(2), m.group(3), m.group(4), m.group(5)))
                require(sorted(got) == sorted(lines), "sf-lines", "info -sf %r prints %r, manifests hold %r" % (relp, got, lines), res)
                require([g[0] for g in got] == sorted(g[0] for g in got), "sf-order", "not in generation order: %r" % got, res)
                feats.add("sf_" + form)
            has_prev = any(rec["previous"] for hh in roots for n_, p_, d_ in docs[hh] for rec in d_["records"] if hh == h and rec["path"] == relp)
            if not has_prev:
                # -v adds detail lines; the digest lines stay exactly those recorded
                res = w.info(h, sf=[full], flags=["-v"])
                require(res.exc is None and res.exit_code == 0, "sf-exit", "-v: " + res.brief(), res)
                gotv = []
                for l in res.stdout.split("\n"):
                    m = SFV_RE.match(l)
                    if m:
                        gotv.append((int(m.group(1)), m.group(2), m.group(3), m.group(4), m.group(5)))
                require(sorted(gotv) == sorted(lines), "sf-lines", "info -v -sf %r prints %r, manifests hold %r" % (relp, gotv, lines), res)
                feats.add("sf_verbose")
            if len(lines) >= 3 and len({x[4] for x in lines}) >= 2:
                feats.add("multi_action_file")
            if any(rec["previous"] for hh in roots for n_, p_, d_ in docs[hh] for rec in d_["records"] if hh == h and rec["path"] == relp):
                feats.add("renamed_file")
        # several -sf options in one call (with and without the root argument): one block per named file
        by_hist = {}
        for (h, relp), lines in sorted(recorded.items()):
            if h + "/" + relp in w.files and w.deepest_root(h + "/" + relp, roots) == h:
                by_hist.setdefault(h, []).append((relp, lines))
        for h, items in sorted(by_hist.items())[:3]:
            if len(items) < 2:
                continue
            pick = [items[0], items[-1]] + ([items[len(items) // 2]] if len(items) >= 3 else [])
            for form in ("noroot", "root"):
                res = w.info(None if form == "noroot" else h, sf=[h + "/" + relp for relp, _ in pick])
                require(res.exc is None and res.exit_code == 0, "sf-exit", res.brief(), res)
                out = res.stdout.split("\n")
                require(out[0] == "Info with history at path: " + w.abs(h), "sf-history", "first line %r, nearest history %r" % (out[:1], w.abs(h)), res)
                got, order, cur = {}, [], None
                for l in out[1:]:
                    if l == "":
                        continue
                    m = SF_RE.match(l)
                    if m and cur is not None:
                        got[cur].append((int(m.group(1)), m.group(2), m.group(3), m.group(4), m.group(5)))
                    elif l.endswith(":"):
                        cur = l[:-1]
                        order.append(cur)
                        got.setdefault(cur, [])
                    else:
                        require(False, "sf-format", "unexpected line %r" % l[:200], res)
                require(order == [relp for relp, _ in pick], "sf-path", "info with %d -sf options prints blocks %r, expected %r" % (len(pick), order, [r_ for r_, _ in pick]), res)
                for relp, lines in pick:
                    require(sorted(got[relp]) == sorted(lines), "sf-lines", "info -sf (one of %d) %r prints %r, manifests hold %r" % (len(pick), relp, got[relp], lines), res)
                feats.add("sf_multi_" + form)
        for f in feats:
            ctx.event(f)
        ctx.mark_nontrivial("nested" in feats or "multi_action_file" in feats)
        return w.trace

"""C17 - renamed files keep their identity when rename detection is on.

Domain   one history over a generated tree whose files have pairwise distinct contents; 1-3 sealing generations with
         generated formats; then 1-2 rounds, each a set of 1-5 simultaneous renames / moves between existing
         directories (as a separate class: into newly created directories), 0-2 unrelated new files, sealed with
         `create -dr` (same or different formats, with or without -n); afterwards verify, diff, create; a renamed file
         altered; and the same tree sealed without -dr on a twin world.
         Later additions: up to three rounds (there, back, and on); whole-folder renames over histories made with / without
         -n (the old folder may be reported missing where no directory hash exists, the files never); a -dr run that
         also introduces a pattern matching a former name; case-only renames.
Oracle   from the rename map the harness applied: create -dr exits 0 and prints no missing block; the new manifest
         (independent reader) has previousPath == old path on exactly the renamed files; verify, diff and create
         then exit 0; after altering a renamed file verify exits 11 and names the new path; without -dr create exits
         10 listing exactly the old paths, and verify / diff report old paths missing and new paths new.
"""
import posixpath
import re

from hypothesis import strategies as st

from .. import gen
from ..world import World, require

ID = "C17"
LEVEL = "exploration"
RULE = (
    "generated: tree with distinct contents x sealing generations x rounds of simultaneous renames/moves (+ unrelated new "
    "files) sealed with create -dr; oracle = applied rename map. non-trivial = a round with >= 2 simultaneous renames "
    "of which one moves across directories, or an unrelated new file present, or a second rename round; distinct by "
    "canonical scenario hash."
)
ASSUMPTIONS = ["all renames of a case stay inside one history (the top one, or one nested child while the command runs on the parent), default ignore patterns, file contents pairwise distinct", "one rename step per file between two generations"]
BUDGET = {"quick": (200, 4), "thorough": (36000, 16)}
REQUIRED = ["multi_rename", "cross_dir_move", "unrelated_new", "second_round", "renamed_back", "other_format", "-n", "new_directory", "altered_after", "nested_child", "hidden_former_name", "consecutive_dr_generations", "root_spelled_dot", "sf_generation_before_rename", "one_empty_file", "whole_folder_renamed", "pattern_matching_former_name", "folder_rename_not_detectable"]


@st.composite
def _scn(draw):
    tree = draw(gen.trees("full", max_leaves=10, min_top=2))
    if draw(st.integers(0, 2)) == 0:
        tree.setdefault(".hidden.mov", "h1")
        tree.setdefault(".dotdir", {"inner.mov": "h2", "..twodots": "h3"})
    child = None
    if draw(st.integers(0, 3)) == 0 and "reel1" not in tree and "notes.txt" not in tree:
        # a nested history; the renames stay inside it (one history), the parent holds a file with an equal relative name
        tree["notes.txt"] = "parent notes"
        tree["reel1"] = {"draft.txt": "child draft", "clip.mov": "child clip", "sub": {"x.mov": "cx"}}
        child = "reel1"
    files = gen.tree_files(tree)
    if not files:
        tree["only"] = "x"
        files = ["only"]
    dirs = [""] + gen.tree_dirs(tree)
    gens = draw(st.lists(gen.formats(2), min_size=1, max_size=3))
    taken = set(files) | set(dirs)
    cur = list(files)
    if child:
        cur = [f for f in files if f.startswith(child + "/")]
        dirs = [d for d in dirs if d == child or d.startswith(child + "/")]
    rounds = []
    for ri in range(draw(st.sampled_from([1, 1, 2, 2, 3]))):
        k = draw(st.integers(1, min(5, len(cur))))
        srcs = draw(st.lists(st.sampled_from(cur), min_size=k, max_size=k, unique=True))
        newdir = draw(st.integers(0, 4)) == 0
        renames = []
        back = ri > 0 and draw(st.booleans())
        if back:
            # rename files of the previous round back to the names they had before
            for a, b in rounds[-1]["renames"]:
                if b in cur and a not in cur and draw(st.integers(0, 2)) > 0:
                    renames.append([b, a])
                    cur[cur.index(b)] = a
            srcs = [] if renames else srcs
        for i, src in enumerate(srcs):
            if newdir:
                d = (child + "/" if child else "") + "nd%d_%d" % (ri, i % 2)  # (with a nested child the moves stay inside it)
            else:
                d = draw(st.sampled_from(dirs + [posixpath.dirname(src)]))
            name = draw(st.one_of(st.just(posixpath.basename(src)), gen.names("full"), st.sampled_from(["notes.txt", ".was_visible", "..dots"])))
            dst = (d + "/" if d else "") + name
            if dst in taken or any(t.startswith(dst + "/") for t in taken):
                dst = (d + "/" if d else "") + name + ".r%d%d" % (ri, i)
            if dst in taken:
                continue
            taken.add(dst)
            renames.append([src, dst])
            cur[cur.index(src)] = dst
        newfiles = []
        for i in range(draw(st.sampled_from([0, 0, 1, 2]))):
            d = draw(st.sampled_from(dirs))
            p = (d + "/" if d else "") + "unrelated%d%d_" % (ri, i) + draw(gen.names("plain"))
            if p not in taken:
                taken.add(p)
                newfiles.append(p)
                cur.append(p)
        rounds.append({"renames": renames, "new": newfiles, "formats": draw(gen.formats(2)), "n": draw(st.integers(0, 3)) == 0, "newdir": newdir and not back, "back": bool(back and renames)})
    return {"tree": tree, "gens": gens, "rounds": rounds, "alter": draw(st.integers(0, 9)), "child": child,
            # whether a plain create (without -dr) is run after each -dr generation (two consecutive -dr generations otherwise)
            "plain_create_between": draw(st.booleans()),
            # a create -sf generation on one (other) file between the sealing generations and the renames
            "sf_generation": draw(st.sampled_from([None, None, 0, 1, 2])),
            # one file of the tree is empty (still pairwise distinct: no other file is)
            "empty_file": draw(st.sampled_from([None, None, 0, 1, 3])),
            "spell": draw(st.sampled_from(["abs", "abs", "slash", "rel", "dot"]))}


def strategy(tier):
    return _scn()


def enumerated(tier):
    tree = {"a.mov": "x", "b.mov": "y", "d": {"c.mov": "z", "e.mov": ""}, ".h.mov": "hidden"}
    base = {"tree": tree, "gens": [["md5"]], "alter": 0, "child": None, "empty_file": None, "sf_generation": None}
    two_steps = [{"renames": [["a.mov", "a1.mov"], ["d/c.mov", "c1.mov"]], "new": [], "formats": ["md5"], "n": False, "newdir": False, "back": False},
                 {"renames": [["a1.mov", "d/a2.mov"], ["c1.mov", "d/c.mov"]], "new": ["d/fresh.mov"], "formats": ["md5"], "n": False, "newdir": False, "back": True}]
    for plain in (False, True):
        for spell in ("abs", "dot", "rel", "slash"):
            for fm2 in (["md5"], ["xxh64"], ["sha1", "md5"]):
                rounds = [dict(two_steps[0]), dict(two_steps[1], formats=fm2)]
                yield dict(base, rounds=rounds, plain_create_between=plain, spell=spell)
    # there and back again, and then on to a third name (together with a file that is renamed for the first time)
    for plain in (False, True):
        for fm3 in (["md5"], ["xxh64"]):
            yield dict(base, plain_create_between=plain, spell="abs", rounds=[
                {"renames": [["a.mov", "a1.mov"], ["d/c.mov", "c1.mov"]], "new": [], "formats": ["md5"], "n": False, "newdir": False, "back": False},
                {"renames": [["a1.mov", "a.mov"], ["c1.mov", "d/c.mov"]], "new": [], "formats": ["md5"], "n": False, "newdir": False, "back": True},
                {"renames": [["a.mov", "d/a3.mov"], ["d/c.mov", "c3.mov"], ["b.mov", "b3.mov"]], "new": ["fresh3.mov"], "formats": fm3, "n": False, "newdir": False, "back": False}])
    # a whole folder is renamed (all files below it move at once); the folder was first recorded without directory hashes
    for gens_n in ([False], [True, False], [False, True], [True]):
        for n in (False, True):
            yield dict(base, gens=[["md5"]] * len(gens_n), gens_n=gens_n, plain_create_between=True, spell="abs", rounds=[
                {"renames": [["d/c.mov", "d moved/c.mov"], ["d/e.mov", "d moved/e.mov"]], "dirmove": ["d", "d moved"], "new": [], "formats": ["md5"], "n": n, "newdir": False, "back": False}])
    # the run that records a rename also introduces a pattern that matches the file's former name
    for pat in ("a.mov", "*.tmp"):
        t2 = dict(tree, **{"render.tmp": "rendered"})
        yield dict(base, tree=t2, plain_create_between=True, spell="abs", rounds=[
            {"renames": [["a.mov", "a final.mov"], ["render.tmp", "d/render final.mov"], ["b.mov", "b2.mov"]], "ignore_old": pat, "new": [], "formats": ["md5"], "n": False, "newdir": False, "back": False}])
    # renames that change the letter case only (other spellings of the same letters are other files here)
    t3 = {"A001C003.MOV": "clip", "Clips": {"Take.wav": "take", "other.wav": "o"}}
    for plain in (False, True):
        yield dict(base, tree=t3, plain_create_between=plain, spell="abs", rounds=[
            {"renames": [["A001C003.MOV", "a001c003.mov"], ["Clips/Take.wav", "Clips/take.wav"]], "new": [], "formats": ["md5"], "n": False, "newdir": False, "back": False},
            {"renames": [["a001c003.mov", "A001c003.Mov"]], "new": ["Clips/TAKE.WAV"], "formats": ["md5"], "n": False, "newdir": False, "back": False}])
    for sf in (0, 1, 3):
        yield dict(base, rounds=[dict(two_steps[0], formats=["xxh64"], n=True)], plain_create_between=True, spell="abs", sf_generation=sf)
    # a nested child history: a file inside it is renamed to a name that, relative to the child, equals a path the parent records
    nested_tree = {"notes.txt": "parent notes", "other.txt": "parent other", "reel1": {"draft.txt": "child draft", "clip.mov": "child clip", "sub": {"x.mov": "cx"}}}
    for fm in (["md5"], ["xxh64"]):
        for n in (False, True):
            yield dict(base, tree=nested_tree, child="reel1", gens=[["md5"], ["md5"]], plain_create_between=True, spell="abs",
                       rounds=[{"renames": [["reel1/draft.txt", "reel1/notes.txt"], ["reel1/sub/x.mov", "reel1/other.txt"]], "new": [], "formats": fm, "n": n, "newdir": False, "back": False}])
    yield dict(base, rounds=[{"renames": [["d/e.mov", "moved empty.mov"], [".h.mov", "d/.h2.mov"]], "new": [], "formats": ["xxh64"], "n": False, "newdir": False, "back": False}],
               plain_create_between=True, spell="abs", gens=[["md5"], ["md5", "sha1"]])


def _distinct(tree, counter):
    out = {}
    for n, c in tree.items():
        if isinstance(c, dict):
            out[n] = _distinct(c, counter)
        else:
            counter[0] += 1
            out[n] = "content #%d %s" % (counter[0], c if isinstance(c, str) else c[0])
    return out


def _missing_block(out):
    lines = out.split("\n")
    for i, l in enumerate(lines):
        m = re.match(r"^ERROR: (\d+) missing file\(s\):$", l)
        if m:
            return {x[2:] for x in lines[i + 1 : i + 1 + int(m.group(1))]}
    return None


def _apply_round(w, rnd):
    if rnd.get("dirmove"):
        # the whole folder is renamed in one go: every file below it moves (that is what "renames" lists)
        w.mv("R/" + rnd["dirmove"][0], "R/" + rnd["dirmove"][1])
    else:
        for src, dst in rnd["renames"]:
            w.mv("R/" + src, "R/" + dst)
    for i, p in enumerate(rnd["new"]):
        w.put("R/" + p, "unrelated new file %d %s" % (i, p))


def run_case(scn, ctx):
    tree = _distinct(scn["tree"], [0])
    feats = set()
    with World("c17") as w, World("c17twin") as tw:
        allfiles = gen.tree_files(tree)
        if scn.get("empty_file") is not None and allfiles:
            ef = allfiles[scn["empty_file"] % len(allfiles)]
            node = tree
            parts = ef.split("/")
            for part in parts[:-1]:
                node = node[part]
            node[parts[-1]] = ""
            feats.add("one_empty_file")
        for x in (w, tw):
            x.build("R", tree)
            if scn.get("child"):
                res = x.create("R/" + scn["child"], scn["gens"][0])
                require(res.exc is None and res.exit_code == 0, "setup", res.brief(), res)
            for gi, fm in enumerate(scn["gens"]):
                res = x.create("R", fm, flags=["-n"] if gi < len(scn.get("gens_n") or []) and scn["gens_n"][gi] else [])
                require(res.exc is None and res.exit_code == 0, "setup", res.brief(), res)
        if scn.get("sf_generation") is not None and allfiles:
            sff = allfiles[scn["sf_generation"] % len(allfiles)]
            for x in (w, tw):
                res = x.create("R", scn["gens"][-1], sf=["R/" + sff])
                require(res.exc is None and res.exit_code == 0, "setup", res.brief(), res)
            feats.add("sf_generation_before_rename")
        first_formats = set(scn["gens"][0])
        ever_recorded = {f[2:] for f in w.files}
        for ri, rnd in enumerate(scn["rounds"]):
            if not rnd["renames"]:
                continue
            # twin: same edits, sealed without -dr only in the last round (so earlier rounds stay comparable)
            last = ri == max(i for i, r_ in enumerate(scn["rounds"]) if r_["renames"])
            _apply_round(w, rnd)
            flags = ["-dr"] + (["-n"] if rnd["n"] else [])
            spell = scn.get("spell", "abs")
            extra = []
            if rnd.get("ignore_old"):
                # the same run introduces an ignore pattern that matches the former name of a renamed file
                extra = ["-i", rnd["ignore_old"]]
                feats.add("pattern_matching_former_name")
            if rnd.get("dirmove"):
                feats.add("whole_folder_renamed")
            res = w.create("R", rnd["formats"], flags=flags, spell=spell, extra=extra)
            what = "round %d renames %s new %s: %s" % (ri + 1, rnd["renames"], rnd["new"], res.brief())
            require(res.exc is None, "dr-no-abort", what, res)
            # a whole-folder rename is recognised through the folder's directory hash; without one (this run or all earlier
            # generations made with -n) the old *folder* is legitimately reported missing - the files never are
            gens_n = scn.get("gens_n") or []
            dir_undetectable = bool(rnd.get("dirmove")) and (rnd["n"] or (len(gens_n) >= len(scn["gens"]) and all(gens_n)))
            if dir_undetectable:
                olddirs = {rnd["dirmove"][0]} | {d_[2:] for d_ in tw.media_dirs("R") if d_.startswith("R/" + rnd["dirmove"][0] + "/")}
                mb0 = _missing_block(res.output)
                require(res.exit_code in (0, 10) and (mb0 or set()) <= olddirs, "dr-none-missing", "create -dr after a folder rename reports more than the old folder(s) %s missing: %s\n%s" % (sorted(olddirs), what, res.output[-400:]), res)
                feats.add("folder_rename_not_detectable")
            else:
                require(res.exit_code == 0, "dr-exit", what + "\n" + res.output[-500:], res)
                require(_missing_block(res.output) is None, "dr-none-missing", "create -dr reports missing files: %s\n%s" % (what, res.output[-400:]), res)
            doc = w.read_history("R")[-1][2]
            prev = {r["path"]: r["previous"] for r in doc["records"]}
            child_kinds = {}
            if scn.get("child"):
                c = scn["child"]
                cdoc = w.read_history("R/" + c)[-1][2]
                for r in cdoc["records"]:
                    prev[c + "/" + r["path"]] = (c + "/" + r["previous"]) if r["previous"] else None
                    child_kinds[c + "/" + r["path"]] = r["kind"]
                feats.add("nested_child")
            want = {dst: src for src, dst in rnd["renames"]}
            for dst, src in want.items():
                require(dst in prev, "dr-record", "renamed file %r has no record (%s)" % (dst, what), res)
                require(prev[dst] == src, "dr-previous", "record %r has previousPath %r, expected %r (%s)" % (dst, prev[dst], src, what), res)
            kinds = dict({r["path"]: r["kind"] for r in doc["records"]}, **child_kinds)
            for p, pv in prev.items():
                if p not in want and kinds.get(p, "file") == "file":
                    # (only file records: a folder that the moves left empty hashes like an empty file and may be taken
                    # for its new place - a directory record's previous path is not part of the statement)
                    require(pv is None, "dr-false-previous", "record %r (not renamed) has previousPath %r (%s)" % (p, pv, what), res)
            for cmd in ("verify", "diff", "create") if not dir_undetectable else ():
                if cmd == "create" and not scn.get("plain_create_between", True) and not last:
                    feats.add("consecutive_dr_generations")
                    continue
                r2 = w.create("R", rnd["formats"], spell=spell) if cmd == "create" else getattr(w, cmd)("R", spell=spell)
                require(r2.exc is None and r2.exit_code == 0, "after-" + cmd, "after create -dr (%s): %s\n%s" % (what, r2.brief(), r2.output[-400:]), r2)
            if len(rnd["renames"]) >= 2:
                feats.add("multi_rename")
            if any(posixpath.dirname(a) != posixpath.dirname(b) for a, b in rnd["renames"]):
                feats.add("cross_dir_move")
            if rnd["new"]:
                feats.add("unrelated_new")
            if ri >= 1:
                feats.add("second_round")
            if not (set(rnd["formats"]) & first_formats):
                feats.add("other_format")
            if rnd["n"]:
                feats.add("-n")
            if rnd["newdir"]:
                feats.add("new_directory")
            if rnd.get("back"):
                feats.add("renamed_back")
            if spell != "abs":
                feats.add("root_spelled_" + spell)
            if any(posixpath.basename(a).startswith(".") or "/." in a for a, b in rnd["renames"]):
                feats.add("hidden_former_name")
            # twin world
            _apply_round(tw, rnd)
            if last:
                r3 = tw.verify("R")
                old = {s for s, d in rnd["renames"]}
                new = ({d for s, d in rnd["renames"]} | set(rnd["new"])) - ever_recorded  # (a name used before is not new)
                require(r3.exit_code in (10, 21), "nodr-verify", "verify without rename record: %s" % r3.brief(), r3)
                mb = _missing_block(r3.output)
                require(mb is not None and old <= mb, "nodr-verify", "verify must list old paths %s as missing, block %s" % (sorted(old), mb), r3)
                newl = {l[len("found new file "):] for l in r3.output.split("\n") if l.startswith("found new file ")}
                require(new <= newl, "nodr-verify", "verify must report %s as new, got %s" % (sorted(new), sorted(newl)), r3)
                r3 = tw.diff("R")
                require(r3.exit_code in (10, 21), "nodr-diff", "diff without rename record: %s" % r3.brief(), r3)
                r3 = tw.create("R", rnd["formats"])
                mb = _missing_block(r3.output)
                require(r3.exit_code == 10 and mb is not None and old <= mb, "nodr-create", "create without -dr: %s, missing block %s, expected old paths %s" % (r3.brief(), mb, sorted(old)), r3)
            else:
                r3 = tw.create("R", rnd["formats"], flags=["-dr"] + (["-n"] if rnd["n"] else []))
            ever_recorded |= {f[2:] for f in w.files}
        # alter one renamed file: verify must still fail and name the new path
        renamed = [d for rnd in scn["rounds"] for s, d in rnd["renames"] if "R/" + d in w.files]
        if renamed:
            victim = renamed[scn["alter"] % len(renamed)]
            w.put("R/" + victim, w.files["R/" + victim] + b" altered")
            r4 = w.verify("R")
            require(r4.exit_code == 11, "altered-after-rename", "renamed file %r altered but %s" % (victim, r4.brief()), r4)
            ok = any(re.match(r"^ERROR: hash mismatch\s+for " + re.escape(victim) + r" old ", l) for l in r4.output.split("\n"))
            require(ok, "altered-after-rename", "altered renamed file %r not named: %s" % (victim, r4.output[-300:]), r4)
            feats.add("altered_after")
        for f in feats:
            ctx.event(f)
        ctx.mark_nontrivial(("multi_rename" in feats and "cross_dir_move" in feats) or "unrelated_new" in feats or "second_round" in feats)
        return w.trace

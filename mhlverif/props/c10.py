"""C10 - manifests and chain files read back exactly what was written.

Domain   (object half) MHLHashList graphs built the way the tool's own callers build them: 0-12 records (files with 1-6
         digest entries, action and hash date with microseconds; directories with content + structure per format;
         previous paths), sizes 0 .. 2^63, root hash, 1-6 ignore patterns, creator info with 0-3 authors, location,
         comment, process type, 0-3 references to real files; text from the full alphabet including XML-special
         characters, astral-plane, combining marks, exotic spaces and U+2028/U+2029; chains with 0-8 generations.
         (scenario half) every manifest and chain file produced by generated create histories (with overwritten
         and renamed files), read file by file and through the history loader (MHLHistory.load_from_path).
         Later additions: every manifest also read through MHLHistory.load_from_path; reference folders with leading dots.
Oracle   write_hash_list -> parse: field-by-field equality for the fields the statement lists (None and '' are
         identified, hash dates compared as instants); the independent xml.etree reader must extract the same
         values from the same bytes (differential).  Same for write_chain -> parse.
"""
import datetime
import os
import time

from hypothesis import strategies as st

from .. import gen, hist, refhash, refxml
from ..world import World, require

ID = "C10"
LEVEL = "exploration"
RULE = (
    "generated: model-object graphs (see domain) written and re-read by the tool's parser and by xml.etree, plus all "
    "manifests/chains of generated histories read by both readers. non-trivial = (>= 1 non-ASCII or XML-special "
    "string and >= 2 formats and (a previous path or a reference or a size-0 file)) for objects, >= 2 generations "
    "with a special name for histories; distinct by canonical scenario hash."
)
ASSUMPTIONS = [
    "text is Unicode without control characters (Cc), surrogates and the XML-1.0-illegal U+FFFE/U+FFFF",
    "ignore patterns and the tool name are non-empty, as every caller guarantees",
    "the zone is set per case (UTC or a zone with daylight saving); offset correctness itself is C16, here only the instants must survive the round trip",
]
BUDGET = {"quick": (600, 4), "thorough": (48000, 16)}
REQUIRED = ["special_text", "line_separator_text", "size0", "previous_path", "reference", "dir_record", "roothash", "authors", "chain", "history_manifests", "chain_nonunique_or_gapped", "collection_files", "bulk_manifest", "bulk_history", "zone_with_dst", "loaded_through_history"]

CLI = refhash.CLI_FORMATS
_HEXLEN = {"md5": 32, "sha1": 40, "xxh128": 32, "xxh3": 16, "xxh64": 16}


def _digest(fmt):
    if fmt == "c4":
        return st.integers(0, 2**512 - 1).map(refhash.c4_encode_int)
    return st.text("0123456789abcdef", min_size=_HEXLEN[fmt], max_size=_HEXLEN[fmt])


_ok_char = lambda c: not (ord(c) < 32 or 0x7F <= ord(c) < 0xA0 or 0xD800 <= ord(c) <= 0xDFFF or ord(c) in (0xFFFE, 0xFFFF))
_free = st.text(st.characters(blacklist_categories=["Cc", "Cs"], blacklist_characters="￾￿"), min_size=1, max_size=12)
_lsep = st.sampled_from(["a b", " x", "line ", "p q r"])
_text = st.one_of(gen.names("full"), gen.names("plain"), _free, _lsep)
_comp = st.one_of(gen.names("full"), gen.names("full"), _lsep, _free.filter(lambda s: "/" not in s and s not in (".", "..")))
_path = st.lists(_comp, min_size=1, max_size=3).map("/".join)
_date = st.datetimes(min_value=datetime.datetime(1980, 1, 1), max_value=datetime.datetime(2037, 12, 31))
_size = st.one_of(st.just(0), st.integers(0, 5000), st.integers(0, 2**63), st.sampled_from([1, 2**31, 2**32, 2**63]))


@st.composite
def _record(draw):
    isdir = draw(st.integers(0, 3)) == 0
    fm = draw(st.lists(st.sampled_from(CLI), min_size=0 if isdir else 1, max_size=6, unique=True))
    rec = {"dir": isdir, "path": draw(_path), "mtime": draw(_date).isoformat(), "prev": draw(st.one_of(st.none(), st.none(), _path)), "entries": []}
    if not isdir:
        rec["size"] = draw(_size)
    for f in fm:
        e = {"fmt": f, "digest": draw(_digest(f)), "date": draw(_date).isoformat()}
        if isdir:
            e["structure"] = draw(_digest(f))
            e["action"] = None
        else:
            e["action"] = draw(st.sampled_from(["original", "verified", "failed"]))
        rec["entries"].append(e)
    return rec


@st.composite
def _object_case(draw):
    recs = draw(st.lists(_record(), min_size=0, max_size=12, unique_by=lambda r: r["path"]))
    authors = draw(
        st.lists(
            st.fixed_dictionaries({"name": st.one_of(_text, _text, st.sampled_from(["-", "--", "- ", "n/a"])), "email": st.one_of(st.none(), st.just("a.b@c-d.org"), _text.map(lambda s: s + "@x.y")), "phone": st.one_of(st.none(), _text), "role": st.one_of(st.none(), _text)}),
            max_size=3,
        )
    )
    rootfm = draw(st.lists(st.sampled_from(CLI), max_size=3, unique=True))
    return {
        "kind": "object",
        "records": recs,
        "creator": {"host": draw(_text), "toolversion": draw(st.one_of(gen.names("plain"), _text)), "date": "2020-01-15T13:00:00+00:00",
                    "location": draw(st.one_of(st.none(), _text)), "comment": draw(st.one_of(st.none(), _text)), "authors": authors},
        "process": draw(st.sampled_from(["in-place", "transfer", "flatten"])),
        "roothash": [{"fmt": f, "digest": draw(_digest(f)), "structure": draw(_digest(f))} for f in rootfm],
        "patterns": draw(st.lists(st.one_of(gen.names("plain"), _text, st.sampled_from(["*.txt", "a/", ".DS_Store", "ascmhl", "ascmhl/"])), min_size=1, max_size=6, unique=True)),
        "references": draw(st.lists(st.tuples(st.one_of(gen.names("full"), gen.names("full"), st.sampled_from([".proxies", "..cache", ".a/.b", "./x".strip("./") + ".", "_.", ".hidden dir"])), st.binary(max_size=30).map(bytes.hex)).map(list), max_size=3, unique_by=lambda t: t[0])),
        "chain": draw(st.lists(st.tuples(st.one_of(gen.names("full"), _lsep), st.integers(0, 2**512 - 1).map(refhash.c4_encode_int)).map(list), max_size=8)),
        # a collection file lists every packing list with sequence number 1: numbers need not be distinct
        "chain_numbers": draw(st.sampled_from(["ascending", "ascending", "all_one", "gaps"])),
        # the zone the manifest is written in: with daylight saving, hash dates of one manifest carry different offsets
        "tz": draw(st.sampled_from(["UTC", "UTC", "Europe/Berlin", "America/St_Johns", "Australia/Lord_Howe"])),
    }


HCFG = {"kinds": ["create"] * 5 + ["create_sf"] * 2 + ["flatten"] * 2 + ["put_new", "overwrite", "mv", "mkdir"], "min_steps": 1, "max_steps": 7, "final": ["create", "flatten", "flatten"],
        "flags": {"-n": 0.2, "-dr": 0.3}}


@st.composite
def _bulk_case(draw):
    """an object graph with hundreds of records (written manifest far larger than the 32 KiB block lxml reads at a
    time); the records are derived deterministically from the drawn seed"""
    base = draw(_object_case())
    base["bulk"] = {"n": draw(st.integers(150, 700)), "seed": draw(st.integers(0, 2**32)), "pad": draw(st.integers(0, 40))}
    return base


def _bulk_records(spec):
    import random

    rnd = random.Random(spec["seed"])
    recs = []
    for i in range(spec["n"]):
        fm = rnd.sample(CLI, rnd.randint(1, 3))
        name = "bulk/%s%05d_%s.mov" % ("x" * spec["pad"], i, "".join(rnd.choice("abcdefghijklmnopqrstuvwxyzäé ü&<") for _ in range(rnd.randint(3, 24))))
        ents = []
        for f in fm:
            d = refhash.c4_encode_int(rnd.getrandbits(512)) if f == "c4" else "%0*x" % (_HEXLEN[f], rnd.getrandbits(4 * _HEXLEN[f]))
            ents.append({"fmt": f, "digest": d, "date": "2021-03-04T05:06:07.%06d" % rnd.randint(0, 999999), "action": rnd.choice(["original", "verified", "failed"])})
        recs.append({"dir": False, "path": name.strip(), "mtime": "2020-02-02T02:02:02", "prev": None, "size": rnd.randint(0, 10**9), "entries": ents})
    return recs


def strategy(tier):
    return st.one_of(_object_case(), _object_case(), _object_case(), _object_case(), _object_case(), _bulk_case(),
                     hist.scenarios(HCFG).map(lambda s: dict(s, kind="history")), hist.scenarios(HCFG).map(lambda s: dict(s, kind="history")),
                     st.tuples(hist.scenarios(dict(HCFG, max_steps=3, long=False)), st.integers(1, 2**31)).map(lambda t: dict(t[0], kind="history", bulk_files=t[1])).filter(lambda s: "bulk 0" not in s["tree"]))


def _norm(x):
    return None if x in (None, "") else x


def _instant(s_or_dt):
    if isinstance(s_or_dt, str):
        import dateutil.parser

        s_or_dt = dateutil.parser.parse(s_or_dt)
    # (a naive date is local time in the zone the case runs in: TZ is set around the whole case)
    return s_or_dt.timestamp()


def _is_special(s):
    return any(ord(c) > 127 or c in "&<>\"'" for c in s)


def run_object(scn, ctx):
    if scn.get("bulk"):
        seen = {r["path"] for r in scn["records"]}
        scn = dict(scn, records=scn["records"] + [r for r in _bulk_records(scn["bulk"]) if r["path"] not in seen])
        ctx.event("bulk_manifest")
    from ascmhl import chain_xml_parser, hashlist_xml_parser
    from ascmhl.chain import MHLChain, MHLChainGeneration
    from ascmhl.hashlist import (MHLAuthor, MHLCreatorInfo, MHLHashEntry, MHLHashList, MHLMediaHash, MHLProcess, MHLProcessInfo, MHLTool)
    from ascmhl.ignore import MHLIgnoreSpec

    old_tz = os.environ.get("TZ")
    os.environ["TZ"] = scn.get("tz", "UTC")
    time.tzset()
    if scn.get("tz", "UTC") != "UTC":
        ctx.event("zone_with_dst")
    try:
        with World("c10") as w:
            os.makedirs(w.abs("R/ascmhl"))
            hl = MHLHashList()
            ci = MHLCreatorInfo()
            c = scn["creator"]
            ci.tool = MHLTool("ascmhl", c["toolversion"])
            ci.creation_date = c["date"]
            ci.host_name = c["host"]
            ci.location = c["location"]
            ci.comment = c["comment"]
            for a in c["authors"]:
                ci.authors.append(MHLAuthor(a["name"], a["email"], a["phone"], a["role"]))
            hl.creator_info = ci
            pi = hl.process_info
            pi.process = MHLProcess(scn["process"])
            pi.ignore_spec = MHLIgnoreSpec(scn["patterns"])
            if scn["roothash"]:
                rm = MHLMediaHash()
                rm.path = "."
                rm.is_directory = True
                for e in scn["roothash"]:
                    he = MHLHashEntry(e["fmt"], e["digest"])
                    he.structure_hash_string = e["structure"]
                    rm.append_hash_entry(he)
                hl.append_hash(rm)
            for r in scn["records"]:
                mh = MHLMediaHash()
                mh.path = r["path"]
                mh.is_directory = r["dir"]
                mh.file_size = r.get("size")
                mh.last_modification_date = datetime.datetime.fromisoformat(r["mtime"])
                mh.previous_path = r["prev"]
                for e in r["entries"]:
                    he = MHLHashEntry(e["fmt"], e["digest"], e["action"], datetime.datetime.fromisoformat(e["date"]))
                    if r["dir"]:
                        he.structure_hash_string = e["structure"]
                    mh.append_hash_entry(he)
                hl.append_hash(mh)
            refs = []
            for name, hexdata in scn["references"]:
                os.makedirs(w.abs("R/" + name + "/ascmhl"), exist_ok=True)
                rp = w.abs("R/" + name + "/ascmhl/0001_child.mhl")
                with open(rp, "wb") as fh:
                    fh.write(bytes.fromhex(hexdata))
                child = MHLHashList()
                child.file_path = rp
                refs.append((name + "/ascmhl/0001_child.mhl", refhash.digest("c4", bytes.fromhex(hexdata))))
                hl.referenced_hash_lists.append(child)
            path = w.abs("R/ascmhl/0001_R_2020-01-15_130000Z.mhl")
            hashlist_xml_parser.write_hash_list(hl, path)
            back = hashlist_xml_parser.parse(path)
            try:
                ind = refxml.read_manifest(path)
            except Exception as e:
                require(False, "independent-reader", "xml.etree cannot read the written manifest: %r" % e)

            # ---- creator info
            bc = back.creator_info
            require(bc is not None, "creator", "creator info not read back")
            for field, want, got, got2 in (
                ("hostname", c["host"], bc.host_name, ind["creatorinfo"].get("hostname")),
                ("creationdate", c["date"], bc.creation_date, ind["creatorinfo"].get("creationdate")),
                ("tool version", c["toolversion"], bc.tool.version if bc.tool else None, ind["creatorinfo"].get("toolversion")),
                ("tool name", "ascmhl", bc.tool.name if bc.tool else None, ind["creatorinfo"].get("tool")),
                ("location", c["location"], bc.location, ind["creatorinfo"].get("location")),
                ("comment", c["comment"], bc.comment, ind["creatorinfo"].get("comment")),
            ):
                require(_norm(got) == _norm(want), "creator-" + field.split()[0], "%s written %r, tool reads %r" % (field, want, got))
                require(_norm(got2) == _norm(want), "creator-" + field.split()[0] + "-independent", "%s written %r, independent reader sees %r" % (field, want, got2))
            require(len(bc.authors) == len(c["authors"]) == len(ind["creatorinfo"]["authors"]), "authors", "author count %d/%d/%d" % (len(c["authors"]), len(bc.authors), len(ind["creatorinfo"]["authors"])))
            for a, b, i in zip(c["authors"], bc.authors, ind["creatorinfo"]["authors"]):
                for k in ("name", "email", "phone", "role"):
                    require(_norm(getattr(b, k)) == _norm(a[k]), "authors", "author %s written %r, tool reads %r" % (k, a[k], getattr(b, k)))
                    require(_norm(i[k]) == _norm(a[k]), "authors-independent", "author %s written %r, independent reader sees %r" % (k, a[k], i[k]))
            # ---- process info
            require(back.process_info.process == scn["process"] == ind["process"], "process", "process %r -> %r / %r" % (scn["process"], back.process_info.process, ind["process"]))
            bp = back.process_info.ignore_spec.get_pattern_list()
            require(bp == scn["patterns"], "patterns", "patterns written %r, tool reads %r" % (scn["patterns"], bp))
            require(ind["patterns"] == scn["patterns"], "patterns-independent", "patterns written %r, independent %r" % (scn["patterns"], ind["patterns"]))
            want_root = sorted((e["fmt"], e["digest"], e["structure"]) for e in scn["roothash"])
            brm = back.process_info.root_media_hash
            got_root = sorted((e.hash_format, e.hash_string, e.structure_hash_string) for e in (brm.hash_entries if brm else []))
            require(got_root == want_root, "roothash", "root hash written %r, tool reads %r" % (want_root, got_root))
            got_root = sorted((e["fmt"], e["digest"], e["structure"]) for e in (ind["roothash"] or []))
            require(got_root == want_root, "roothash-independent", "root hash written %r, independent %r" % (want_root, got_root))
            # ---- records
            require(len(back.media_hashes) == len(scn["records"]) == len(ind["records"]), "records", "record count %d -> %d / %d" % (len(scn["records"]), len(back.media_hashes), len(ind["records"])))
            for r, b, i in zip(scn["records"], back.media_hashes, ind["records"]):
                require(b.path == r["path"], "path", "path written %r, tool reads %r" % (r["path"], b.path))
                require(i["path"] == r["path"], "path-independent", "path written %r, independent reader sees %r" % (r["path"], i["path"]))
                require(b.is_directory == r["dir"] and (i["kind"] == "dir") == r["dir"], "kind", "record kind of %r changed" % r["path"])
                require(_norm(b.previous_path) == _norm(r["prev"]), "previous-path", "previous path written %r, tool reads %r" % (r["prev"], b.previous_path))
                require(_norm(i["previous"]) == _norm(r["prev"]), "previous-path-independent", "previous path written %r, independent %r" % (r["prev"], i["previous"]))
                if not r["dir"]:
                    require(b.file_size == r["size"], "size", "size written %r, tool reads %r (path %r)" % (r["size"], b.file_size, r["path"]))
                    require(i["size"] == str(r["size"]), "size-independent", "size written %r, independent reader sees %r" % (r["size"], i["size"]))
                want = sorted((e["fmt"], e["digest"], e.get("structure"), e["action"], _instant(datetime.datetime.fromisoformat(e["date"]))) for e in r["entries"])
                got = sorted((e.hash_format, e.hash_string, e.structure_hash_string, e.action, _instant(e.hash_date)) for e in b.hash_entries)
                require(got == want, "entries", "entries of %r written %r, tool reads %r" % (r["path"], want, got))
                if r["dir"]:
                    got = sorted((e["fmt"], e["digest"], e["structure"], e["action"], None) for e in i["entries"])
                    want = sorted((a, b_, c_, d_, None) for a, b_, c_, d_, _ in want)
                else:
                    got = sorted((e["fmt"], e["digest"], e["structure"], e["action"], _instant(e["hashdate"])) for e in i["entries"])
                require(got == want, "entries-independent", "entries of %r written %r, independent %r" % (r["path"], want, got))
                # the lookup index maps both names
                require(back.find_media_hash_for_path(r["path"]) is not None, "index", "path %r not in the lookup index" % r["path"])
            # ---- references
            got = [(x.path, x.reference_hash) for x in back.hash_list_references]
            require(got == refs, "references", "references written %r, tool reads %r" % (refs, got))
            got = [(x["path"], x["c4"]) for x in ind["references"]]
            require(got == refs, "references-independent", "references written %r, independent %r" % (refs, got))

            # ---- chain
            chain = MHLChain(w.abs("R/ascmhl/ascmhl_chain.xml"))
            mode = scn.get("chain_numbers", "ascending")
            num = lambda i: {"ascending": i, "all_one": 1, "gaps": 3 * i - 1}[mode]
            for n, (fn, dig) in enumerate(scn["chain"], 1):
                chain.append_generation(MHLChainGeneration(num(n), "%04d_%s.mhl" % (n, fn), "c4", dig))
            hl.generation_number = num(len(scn["chain"]) + 1)
            chain_xml_parser.write_chain(chain, hl)
            want = [(str(num(n)), "%04d_%s.mhl" % (n, fn), "c4", dig) for n, (fn, dig) in enumerate(scn["chain"], 1)]
            if mode != "ascending" and scn["chain"]:
                ctx.event("chain_nonunique_or_gapped")
            with open(path, "rb") as fh:
                want.append((str(hl.generation_number), os.path.basename(path), "c4", refhash.digest("c4", fh.read())))
            cb = chain_xml_parser.parse(chain.file_path)
            got = [(str(g.generation_number), g.ascmhl_filename, g.hash_format, g.hash_string) for g in cb.generations]
            require(got == want, "chain", "chain written %r, tool reads %r" % (want, got))
            got = [(g["seq"], g["path"], g["fmt"], g["digest"]) for g in refxml.read_chain(chain.file_path)]
            require(got == want, "chain-independent", "chain written %r, independent reader sees %r" % (want, got))
    finally:
        if old_tz is None:
            os.environ.pop("TZ", None)
        else:
            os.environ["TZ"] = old_tz
        time.tzset()

    strings = [r["path"] for r in scn["records"]] + [c["host"], c["location"] or "", c["comment"] or ""] + [a["name"] for a in c["authors"]]
    special = any(_is_special(s) for s in strings)
    lsep = any(" " in s or " " in s for s in strings + [r["prev"] or "" for r in scn["records"]] + scn["patterns"])
    nfm = len({e["fmt"] for r in scn["records"] for e in r["entries"]})
    size0 = any(r.get("size") == 0 for r in scn["records"])
    prev = any(r["prev"] for r in scn["records"])
    for flag, name in ((special, "special_text"), (lsep, "line_separator_text"), (size0, "size0"), (prev, "previous_path"), (bool(refs), "reference"),
                       (any(r["dir"] for r in scn["records"]), "dir_record"), (bool(scn["roothash"]), "roothash"), (bool(c["authors"]), "authors"), (bool(scn["chain"]), "chain")):
        if flag:
            ctx.event(name)
    ctx.mark_nontrivial(special and nfm >= 2 and (prev or bool(refs) or size0))


def _same_hash_list(t, i, p, via):
    """tool-side MHLHashList t against the independent reading i of the same file p"""
    require(len(t.media_hashes) == len(i["records"]), "h-records", "%s%s: tool reads %d records, independent reader %d" % (via, p, len(t.media_hashes), len(i["records"])))
    for b, r in zip(t.media_hashes, i["records"]):
        require(b.path == r["path"], "h-path", "%s%s: %r vs %r" % (via, p, b.path, r["path"]))
        require((str(b.file_size) if b.file_size is not None else None) == r["size"], "h-size", "%s%s %r: size %r vs %r" % (via, p, r["path"], b.file_size, r["size"]))
        require(_norm(b.previous_path) == _norm(r["previous"]), "h-previous", "%s%s %r: %r vs %r" % (via, p, r["path"], b.previous_path, r["previous"]))
        got = sorted((e.hash_format, e.hash_string, e.structure_hash_string, e.action) for e in b.hash_entries)
        want = sorted((e["fmt"], e["digest"], e["structure"], e["action"]) for e in r["entries"])
        require(got == want, "h-entries", "%s%s %r: %r vs %r" % (via, p, r["path"], got, want))
        if r["lastmod"] is not None and b.last_modification_date is not None:
            require(_instant(b.last_modification_date) == _instant(r["lastmod"]), "h-lastmod", "%s%s %r: %r vs %r" % (via, p, r["path"], b.last_modification_date, r["lastmod"]))
    require(t.process_info.ignore_spec.get_pattern_list() == i["patterns"], "h-patterns", "%s%s: %r vs %r" % (via, p, t.process_info.ignore_spec.get_pattern_list(), i["patterns"]))
    require([(x.path, x.reference_hash) for x in t.hash_list_references] == [(x["path"], x["c4"]) for x in i["references"]], "h-references", "%s%s references differ" % (via, p))
    require(t.creator_info.creation_date == i["creatorinfo"].get("creationdate"), "h-creator", "%s%s creation date" % (via, p))


def run_history(scn, ctx):
    from ascmhl import chain_xml_parser, hashlist_xml_parser

    with World("c10h") as w:
        hist.setup_world(w, scn)
        if scn.get("bulk_files"):
            import random

            rnd = random.Random(scn["bulk_files"])
            for i in range(260 + scn["bulk_files"] % 150):
                w.put("%s/bulk %d/%s_%05d %s.mov" % (scn["root"], i % 3, "y" * rnd.randint(0, 25), i, "".join(rnd.choice("abc é&<") for _ in range(rnd.randint(1, 15))).strip() or "z"), "b%d" % i)
            ctx.event("bulk_history")
        for step in scn["steps"]:
            hist.apply_step(w, scn, step)
        n = 0
        import glob as _glob

        flat = {w.rel(x): None for x in _glob.glob(os.path.join(w.abs("_flat"), "*", "*", "*")) if os.path.isfile(x)}
        if any(p.endswith("ascmhl_collection.xml") for p in flat):
            ctx.event("collection_files")
        for p in sorted(list(w.asc_files()) + list(flat)):
            ap = w.abs(p)
            if p.endswith(".mhl"):
                t = hashlist_xml_parser.parse(ap)
                i = refxml.read_manifest(ap)
                _same_hash_list(t, i, p, "")
                n += 1
            else:
                t = chain_xml_parser.parse(ap)
                i = refxml.read_chain(ap)
                got = [(str(g.generation_number), g.ascmhl_filename, g.hash_format, g.hash_string) for g in t.generations]
                want = [(g["seq"], g["path"], g["fmt"], g["digest"]) for g in i]
                require(got == want, "h-chain", "%s: %r vs %r" % (p, got, want))
        # the same manifests as the history loader hands them to every command (MHLHistory.load_from_path, child
        # histories included): nothing may be changed on the way
        from ascmhl.history import MHLHistory

        def walk(h):
            yield h
            for c in h.child_histories:
                yield from walk(c)

        for r in w.history_roots():
            if any(r != o and w.under(r, o) for o in w.history_roots()):
                continue  # reached through its parent
            for h in walk(MHLHistory.load_from_path(w.abs(r))):
                for hl in h.hash_lists:
                    _same_hash_list(hl, refxml.read_manifest(hl.file_path), w.rel(hl.file_path), "history loader: ")
                    ctx.event("loaded_through_history")
        ctx.event("history_manifests", n)
        ctx.mark_nontrivial(n >= 2 and gen.has_special_name(scn["tree"]))
        return w.trace


def run_case(scn, ctx):
    if scn["kind"] == "object":
        return run_object(scn, ctx)
    return run_history(scn, ctx)

"""C14 - commands touch nothing beyond what they document.

Domain   generated worlds (flat and nested histories, edited trees with altered / missing / new files, tampered or missing
         manifests and chain files, folders without history) x a generated list of command invocations with option
         combinations: verify (plain, -sf, -dh, -dh -co, -dh -ro, -pl), diff, info (root, -sf), hash,
         xsd-schema-check (manifest, chain), flatten (new and pre-existing destination), create (folder, -sf, -n, -dr,
         -i) - whether they succeed or fail with any exit code.
         Later additions (probes): refused flatten onto an existing empty destination; create -i / -dr -i naming a nested
         history by its path; pattern files with blank-only lines; -sf with -v; enumerated empty roots / empty nested
         folders with -n, a 12-generation history under a frozen clock, folder names with a per cent sign.
Oracle   two monitors around every invocation: (a) before/after snapshot of the whole scratch area (type, bytes, size,
         mtime_ns, mode of every entry; atime ignored) and (b) a Python audit hook listing every open-for-write,
         mkdir, rename, remove, rmdir, utime, chmod, truncate ... with its path, so writes outside the scratch area
         are seen too.  Allowed: nothing for verify / diff / info / hash / xsd-schema-check; for flatten the
         destination folder and paths below it (and the mtime of its parent when it is created); for create, per
         history in scope: its ascmhl folder (created if absent; then also the mtime of the history root),
         exactly one new NNNN_*.mhl and the chain file - nothing else, and never a media file or directory.
"""
import os
import posixpath
import re

from hypothesis import strategies as st

from .. import fsmon, gen, hist
from ..world import ASC, CHAIN, World, require

ID = "C14"
LEVEL = "exploration"
RULE = (
    "generated: world (history of creates and edits, optionally tampered) x 4-10 command invocations; each invocation "
    "is one evaluation of the write-set oracle. non-trivial = the command fails (exit != 0), or the world is nested, "
    "or flatten's destination pre-exists; distinct by (scenario hash) with per-invocation counts in the classes."
)
ASSUMPTIONS = ["writes are observed through Python's audit events and stat snapshots (a C extension writing behind Python's back would only be seen by the snapshot, and only inside the scratch area)"]
BUDGET = {"quick": (160, 4), "thorough": (20000, 16)}
REQUIRED = ["failing_command", "nested_world", "flatten_existing_dest", "flatten_relative_dest", "create_new_ascmhl", "tampered", "readonly_ok", "create_sf", "create_sf_beside_history", "leftover_partial", "flatten_refused_existing_empty_dest", "nested_history_excluded_by_path_pattern"]

CFG = {
    "kinds": ["create"] * 5 + ["create_sf"] + ["put_new", "overwrite", "rm", "mkdir", "mv"],
    "min_steps": 1,
    "max_steps": 6,
    "flags": {"-n": 0.2},
    "min_top": 1,
    "long_every": 6,
}
PROBES = ["verify", "verify_sf", "verify_dh", "verify_dh_co", "verify_dh_ro", "verify_pl", "diff", "info", "info_sf", "hash", "xsd", "xsd_df",
          "flatten", "flatten", "flatten_nohist", "create", "create", "create_sf", "create_n", "create_dr", "create_i", "create_sub", "create_i_path", "create_i_path", "create_dr_i_path", "create_dr_i_path", "create_ii_blank_line", "create_sf_v"]


@st.composite
def _scn(draw):
    scn = draw(hist.scenarios_deep(CFG))
    if draw(st.integers(0, 3)) == 0:
        base = draw(st.sampled_from(["Clips", "s", "Reel1"]))
        sib = base + draw(st.sampled_from(["_proxy", "2", " b"]))
        if not ({base, sib} & hist.top_names_used(scn)):
            scn["tree"][base] = {"in.mov": "inside"}
            scn["tree"][sib] = {"next.mov": "beside", "more.mov": "beside too"}
            scn["steps"] = [{"op": "create", "root": base, "formats": ["md5"], "flags": []}, {"op": "create", "root": "", "formats": ["md5"], "flags": []}] + scn["steps"]
    scn["damage"] = draw(st.sampled_from([None, None, None, "leftover_partial", "leftover_partial", "tamper", "rm_manifest", "rm_chain"]))
    scn["probes"] = draw(st.lists(st.tuples(st.sampled_from(PROBES), st.integers(0, 1000)).map(list), min_size=4, max_size=10))
    if any(k in scn["tree"] for k in ("Clips", "s", "Reel1")):
        # single-file create on an entry that merely shares a name prefix with a sibling history folder
        scn["probes"].insert(draw(st.integers(0, len(scn["probes"]))), ["create_sf_beside_history", draw(st.integers(0, 1000))])
    return scn


def enumerated(tier):
    """boundary worlds: a completely empty root, and a root whose nested history folder is empty, sealed with and without -n"""
    for probes in ([["create_n", 0], ["verify", 1], ["create", 2], ["create_n", 3], ["info", 4]], [["create", 0], ["create_n", 1], ["flatten", 0], ["diff", 2]]):
        yield {"root": "empty root", "tree": {}, "steps": [], "spell": "abs", "damage": None, "probes": probes}
        yield {"root": "outer", "tree": {"empty kid": {}, "f.mov": "f"}, "spell": "abs", "damage": None, "probes": probes,
               "steps": [{"op": "create", "root": "empty kid", "formats": ["md5"], "flags": []}]}
        yield {"root": "outer n", "tree": {"empty kid": {}, "f.mov": "f"}, "spell": "abs", "damage": None, "probes": probes,
               "steps": [{"op": "create", "root": "empty kid", "formats": ["md5"], "flags": ["-n"]}, {"op": "create", "root": "", "formats": ["md5"], "flags": ["-n"]}]}


    # a history with more than ten generations, then several creates in a row (within one clock second)
    yield {"root": "long", "tree": {"a.mov": "a", "kid": {"b.mov": "b"}}, "spell": "abs", "damage": None, "frozen": "2021-05-05 10:00:00",
           "steps": [{"op": "create", "root": "kid", "formats": ["md5"], "flags": []}] + [{"op": "create", "root": "", "formats": ["md5"], "flags": []} for _ in range(11)],
           "probes": [["create", 0], ["create_n", 1], ["create", 2], ["create_sf", 3], ["create", 4], ["verify", 5]]}


    # verbose single-file runs and pattern files with blank-only lines, each followed by further creates; a root folder
    # with a per cent sign in its name
    for root in ("100% done", "plain"):
        yield {"root": root, "tree": {"a.mov": "a", "x.tmp": "t", "kid %d": {"b.mov": "b"}}, "spell": "abs", "damage": None,
               "steps": [{"op": "create", "root": "kid %d", "formats": ["md5"], "flags": []}],
               "probes": [["create_sf_v", 0], ["create_ii_blank_line", 1], ["create", 2], ["create_sf_v", 3], ["create_sf", 4], ["create_n", 5], ["verify", 6], ["info", 7]]}
        yield {"root": root, "tree": {"a.mov": "a", "x.tmp": "t"}, "spell": "abs", "damage": None, "steps": [],
               "probes": [["create_sf_v", 0], ["create_ii_blank_line", 1], ["create_sf", 2], ["create", 3]]}


def strategy(tier):
    return _scn()


def classify_create_diff(w, changed, before, after, res, scope=None):
    """every changed path must be explained by a history in scope that gained exactly one generation"""
    by_hist = {}
    changed = [p for p in changed if not p.endswith(".partial")]  # (a later create may reuse or clear the temporary files of an interrupted one)
    for p in changed:
        parts = p.split("/")
        if ASC in parts:
            i = parts.index(ASC)
            h = "/".join(parts[:i])
            by_hist.setdefault(h, []).append(p)
    for p in changed:
        parts = p.split("/")
        if ASC in parts:
            continue
        # a media file or directory changed: only the mtime of a history root whose ascmhl folder is new is tolerated
        b, a = before.get(p), after.get(p)
        newasc = (p + "/" + ASC) in after and (p + "/" + ASC) not in before
        ok = b is not None and a is not None and b[0] == "d" and newasc and (b[0], b[1], b[2], b[4]) == (a[0], a[1], a[2], a[4])
        require(ok, "create-touches-media", "create changed %r: %r -> %r (%s)" % (p, b, a, res.brief()), res)
    for h, paths in by_hist.items():
        ad = h + "/" + ASC
        if scope is not None:
            require(h in scope, "create-out-of-scope-history", "create wrote into the history at %r, in scope are only %s (%s)" % (h, sorted(scope), res.brief()), res)
        new_manifests = []
        for p in paths:
            b, a = before.get(p), after.get(p)
            require(a is not None, "create-removes", "create removed %r" % p, res)
            if p == ad:
                continue
            name = p[len(ad) + 1 :]
            if name == CHAIN:
                continue
            require(b is None and re.match(r"^\d{4}_.*\.mhl$", name, re.S) is not None, "create-stray-file", "create wrote %r (%s)" % (p, res.brief()), res)
            new_manifests.append(p)
        require(len(new_manifests) == 1, "create-one-manifest", "history %r: new manifests %r (%s)" % (h, new_manifests, res.brief()), res)
        require((ad + "/" + CHAIN) in paths, "create-chain", "history %r got a manifest but its chain was not rewritten" % h, res)


def run_case(scn, ctx):
    feats = set()
    with World("c14") as w:
        hist.setup_world(w, scn)
        top = scn["root"]
        for step in scn["steps"]:
            hist.apply_step(w, scn, step, **({"frozen": scn["frozen"]} if scn.get("frozen") and step["op"] in ("create", "create_sf", "flatten") else {}))
        roots = w.history_roots()
        if len(roots) >= 2:
            feats.add("nested_world")
        if not roots:
            feats.add("no_history")
        pl = None
        if roots:
            r = w.flatten(roots[0], "_pl/dest")
            import glob

            found = glob.glob(os.path.join(w.abs("_pl/dest"), "*", "packinglist_*.mhl"))
            pl = found[0] if found else None
        if scn["damage"] and roots:
            h = roots[-1]
            ms = w.manifests(h)
            if scn["damage"] == "tamper" and ms:
                with open(w.abs(ms[0][1]), "ab") as fh:
                    fh.write(b"<!-- tampered -->")
            elif scn["damage"] == "rm_manifest" and ms:
                os.remove(w.abs(ms[-1][1]))
            elif scn["damage"] == "rm_chain" and os.path.exists(w.abs(h + "/" + ASC + "/" + CHAIN)):
                os.remove(w.abs(h + "/" + ASC + "/" + CHAIN))
            elif scn["damage"] == "leftover_partial":
                # what a create killed mid-write leaves behind in every history of the tree (see C15)
                for hh in roots:
                    with open(w.abs(hh + "/" + ASC + "/0099_stale_2020-01-01_000000Z.mhl.partial"), "wb") as fh:
                        fh.write(b'<?xml version="1.0" encoding="UTF-8"?>\n<hashlist version="2.0" xmlns="urn:ASC:MHL:v2.0">\n  <creatorinfo>')
                feats.add("leftover_partial")
            if scn["damage"] != "leftover_partial":
                feats.add("tampered")
        os.makedirs(w.abs("_flat/existing"), exist_ok=True)
        with open(w.abs("_flat/existing/keep.txt"), "w") as fh:
            fh.write("pre-existing content")
        nfl = 0
        relcwd = None
        for probe, k in scn["probes"]:
            files = w.media_files(top)
            dirs = [top] + w.media_dirs(top)
            roots = w.history_roots()
            f = files[k % len(files)] if files else None
            T = (roots + [top])[k % (len(roots) + 1)] if k % 3 else top
            allowed_prefix = None
            kind = "readonly"
            if probe == "verify":
                args = ("verify", [w.abs(T)])
            elif probe == "verify_sf":
                if not f:
                    continue
                args = ("verify", [w.abs(T), "-sf", w.abs(f)])
            elif probe == "verify_dh":
                args = ("verify", [w.abs(T), "-dh"] + (["-v"] if k % 2 else []))
            elif probe == "verify_dh_co":
                args = ("verify", [w.abs(T), "-dh", "-co"] + (["-v"] if k % 2 else []))
            elif probe == "verify_dh_ro":
                args = ("verify", [w.abs(T), "-dh", "-ro"])
            elif probe == "verify_pl":
                if not pl:
                    continue
                args = ("verify", [w.abs(roots[0] if roots else top), "-pl", pl])
            elif probe == "diff":
                args = ("diff", [w.abs(T)])
            elif probe == "info":
                args = ("info", [w.abs(T)] + (["-v"] if k % 2 else []))
            elif probe == "info_sf":
                if not f:
                    continue
                args = ("info", ["-sf", w.abs(f)] + ([w.abs(T)] if k % 2 else []))
            elif probe == "hash":
                if not f:
                    continue
                args = ("hash", [w.abs(f), "-h", gen.CLI_FORMATS[k % 6]])
            elif probe in ("xsd", "xsd_df"):
                asc = sorted(w.asc_files())
                cand = [p for p in asc if p.endswith(".mhl")] if probe == "xsd" else [p for p in asc if p.endswith(".xml")]
                if not cand:
                    continue
                xs = os.path.join(ctx.repo, "xsd", "ASCMHL.xsd" if probe == "xsd" else "ASCMHLDirectory__combined.xsd")
                args = ("xsd_schema_check", [w.abs(cand[k % len(cand)]), "-xsd", xs] + (["-df"] if probe == "xsd_df" else []))
            elif probe == "flatten_nohist":
                # refused (exit 30): the source folder has no history; the destination exists already and is empty, and so
                # are the folders above it
                kind = "flatten"
                relcwd = None
                if "_nohist/src/clip.mov" not in w.files:
                    w.put("_nohist/src/clip.mov", "never sealed")
                w.mkdir("_nohist/empty/dest%d" % k)
                dest = allowed_prefix = "_nohist/empty/dest%d" % k
                args = ("flatten", [w.abs("_nohist/src"), w.abs(dest)])
                feats.add("flatten_refused_existing_empty_dest")
            elif probe == "flatten":
                kind = "flatten"
                relcwd = None
                if k % 3 == 1:
                    dest = "_flat/existing"
                    feats.add("flatten_existing_dest")
                else:
                    nfl += 1
                    dest = "_flat/new%d" % nfl
                allowed_prefix = dest
                if k % 3 == 2:
                    # relative destination, resolved against the working directory (which is not the source root)
                    relcwd = w.abs("_flat")
                    args = ("flatten", [w.abs(T), posixpath.basename(dest)])
                    feats.add("flatten_relative_dest")
                else:
                    args = ("flatten", [w.abs(T), w.abs(dest)])
            else:
                kind = "create"
                base = [w.abs(T), "-h", gen.CLI_FORMATS[k % 6]]
                scope = None
                if probe == "create_sf_beside_history":
                    T = top
                    base[0] = w.abs(T)
                    sub = [x for x in files if any(x.startswith(r) and not w.under(x, r) for r in roots if r != top)]
                    if not sub:
                        continue
                    target_file = sub[k % len(sub)]
                    base += ["-sf", w.abs(target_file)]
                    feats.add("create_sf_beside_history")
                    scope = {T} | {r for r in roots if w.under(r, T) and w.under(target_file, r)}
                elif probe == "create_sf":
                    sub = [x for x in files if w.under(x, T)]
                    if not sub:
                        continue
                    target_file = sub[k % len(sub)]
                    base += ["-sf", w.abs(target_file)]
                    feats.add("create_sf")
                    # in scope: the invoked root and the nested histories on the way down to the file
                    scope = {T} | {r for r in roots if w.under(r, T) and w.under(target_file, r)}
                elif probe == "create_n":
                    base += ["-n"]
                elif probe == "create_dr":
                    base += ["-dr"]
                elif probe == "create_i":
                    base += ["-i", "*.tmp", "-i", "zzz"]
                elif probe == "create_ii_blank_line":
                    # a pattern file with a line that holds blanks only (what the following runs make of it shows later)
                    os.makedirs(w.abs("_ii"), exist_ok=True)
                    with open(w.abs("_ii/blank line.txt"), "w") as fh:
                        fh.write("*.tmp\n   \nzzz\n\t\n")
                    base += ["-ii", w.abs("_ii/blank line.txt")]
                    feats.add("pattern_file_with_blank_only_line")
                elif probe == "create_sf_v":
                    sub = [x for x in files if w.under(x, T)]
                    if not sub:
                        continue
                    target_file = sub[k % len(sub)]
                    base += ["-v", "-sf", w.abs(target_file)]
                    scope = {T} | {r for r in roots if w.under(r, T) and w.under(target_file, r)}
                    feats.add("create_sf_verbose")
                elif probe in ("create_i_path", "create_dr_i_path"):
                    # a pattern that names a nested history by its path from the invoked root: that history (and what lies
                    # below it) is out of scope, with rename detection on as well
                    below = [r for r in roots if r != T and w.under(r, T)]
                    if not below:
                        continue
                    deep = [r for r in below if r[len(T) + 1:].count("/") >= 1] or below
                    ign = deep[k % len(deep)]
                    relp = ign[len(T) + 1:]
                    if not (set(relp) <= set("abcdefghijklmnopqrstuvwxyzABCDEFGHIJKLMNOPQRSTUVWXYZ0123456789._-/ ") and relp[0] not in "-!#/ " and not relp.endswith(" ")):
                        continue  # (a literal pattern only)
                    if any(o != ign and not w.under(o, ign) and o.split("/")[-1] == relp and "/" not in relp for o in below):
                        continue  # (a bare name would exclude its namesakes too)
                    base += ["-i", relp]
                    if probe == "create_dr_i_path":
                        w.put(T + "/newcomer %d.mov" % k, "a new path for rename detection to look at")
                        base += ["-dr"]
                    scope = {T} | {r for r in roots if w.under(r, T) and not w.under(r, ign)}
                    feats.add("nested_history_excluded_by_path_pattern" if "/" in relp else "nested_history_excluded_by_name")
                elif probe == "create_sub":
                    base[0] = w.abs(dirs[k % len(dirs)])
                if scope is None:
                    inv = w.rel(base[0])
                    scope = {inv} | {r for r in roots if w.under(r, inv)}
                args = ("create", base)
            before = w.snapshot()
            with fsmon.monitor() as events:
                res = w.run(*args, cwd=relcwd if kind == "flatten" else None, **({"frozen": scn["frozen"]} if scn.get("frozen") else {}))
            after = w.snapshot()
            ctx.event("invocations")
            ctx.event("probe_" + probe)
            if res.exit_code != 0:
                feats.add("failing_command")
            changed = sorted(p for p in set(before) | set(after) if before.get(p) != after.get(p))
            # audit events: every mutating call must lie inside what the command may write
            for ev in events:
                for path in ev[1:]:
                    ap = os.path.abspath(path)
                    inside = ap == w.base or ap.startswith(w.base + os.sep)
                    require(inside, "writes-outside", "%s: %s on %r, outside the scratch area (%s)" % (args[0], ev[0], path, res.brief()), res)
                    rel = w.rel(ap)
                    if kind == "readonly":
                        require(False, "readonly-writes", "%s performed %s on %r (%s)" % (args[0], ev[0], rel, res.brief()), res)
                    elif kind == "flatten":
                        require(rel == allowed_prefix or rel.startswith(allowed_prefix + "/"), "flatten-writes-elsewhere", "flatten performed %s on %r, destination is %r" % (ev[0], rel, allowed_prefix), res)
                    else:
                        require(ASC in rel.split("/"), "create-writes-elsewhere", "create performed %s on %r (%s)" % (ev[0], rel, res.brief()), res)
            if kind == "readonly":
                require(not changed, "readonly-changes", "%s %s changed the disk: %s (%s)" % (args[0], args[1][1:], [(p, before.get(p), after.get(p)) for p in changed[:3]], res.brief()), res)
                feats.add("readonly_ok")
            elif kind == "flatten":
                for p in changed:
                    ok = p == allowed_prefix or p.startswith(allowed_prefix + "/") or (p == posixpath.dirname(allowed_prefix) and allowed_prefix not in before)
                    require(ok, "flatten-changes-elsewhere", "flatten changed %r (destination %r): %r -> %r" % (p, allowed_prefix, before.get(p), after.get(p)), res)
                if allowed_prefix in before:
                    require(allowed_prefix in after, "flatten-removes-destination", "flatten (%s) removed its pre-existing destination folder %r" % (res.brief(), allowed_prefix), res)
                keep = "_flat/existing/keep.txt"
                require(before.get(keep) == after.get(keep), "flatten-clobbers", "flatten altered a pre-existing file in its destination", res)
            else:
                classify_create_diff(w, changed, before, after, res, scope)
                if any(p.endswith("/" + ASC) and p not in before for p in changed):
                    feats.add("create_new_ascmhl")
                if res.exit_code in (31, 32, 33) or res.exc is not None:
                    require(not changed, "failed-create-writes", "create refused/aborted (%s) but changed %s" % (res.brief(), changed[:4]), res)
        for f in feats:
            ctx.event(f)
        ctx.mark_nontrivial(bool(feats & {"failing_command", "nested_world", "flatten_existing_dest"}))
        return w.trace

"""C06 - histories are append-only and generations are numbered without gaps.

Domain   generated histories: interleaved create / create -sf runs (succeeding or ending 10/11) and tree edits over
         flat and nested layouts (folder names up to 227 bytes, the longest whose manifest name fits), under the real clock (several runs fall into one second) or a frozen one.
         Later additions: folder-mode runs write into every history below the invoked root (plain folders in between or
         not); folder names of 200-227 bytes enumerated.
Oracle   byte snapshots of every ascmhl folder before/after each run: old manifests identical; each touched history
         gains exactly one manifest, numbered max+1, named NNNN_<folder>_<UTC>Z.mhl with the UTC time inside the
         run's window; the chain (independent reader) = old entries unchanged, in order, + one entry whose
         sequence number, file name and c4 digest (own SHA-512/base-58) match the new file's bytes; untouched
         histories byte-identical; a -sf run writes into every history between the invoked root and the owner
         of each named file (also when that file fails verification); reloading with the tool yields generations 1..n ascending.
"""
import datetime
import posixpath
import re
import time

from hypothesis import strategies as st

from .. import gen, hist, refhash, refxml
from ..world import ASC, CHAIN, World, require

ID = "C06"
LEVEL = "exploration"
RULE = (
    "generated: tree + 2-12 steps of create / create -sf (any directory, any formats) interleaved with put, overwrite, "
    "rm, rmtree, mkdir, mv, real or frozen clock; after every create the before/after bytes of all ascmhl folders are "
    "compared as described. non-trivial = some history reaches >= 3 generations and (a run exited 10/11 or two "
    "generations share a clock second or a nested history exists); distinct by canonical scenario hash."
)
ASSUMPTIONS = ["the clock is the real one or freezegun's; no concurrent second writer on the same history"]
BUDGET = {"quick": (220, 4), "thorough": (16000, 16)}
REQUIRED = ["gens>=3", "failed_run", "same_second", "nested", "sf", "empty_root_sealed", "non_utc_host_zone", "same_named_children", "folder_name>=219_bytes", "failing_sf_into_nested_history", "nested_history_below_plain_folder"]

CFG = {
    "kinds": ["create"] * 6 + ["create_sf"] * 2 + ["put_new", "overwrite", "overwrite", "rm", "rm", "rmtree", "mkdir", "mv", "rmfiles"],
    "min_steps": 2,
    "max_steps": 12,
    "final": ["create"],
    "flags": {"-n": 0.2},
}
NAME_RE = re.compile(r"^(\d{4})_(.*)_(\d{4}-\d{2}-\d{2}_\d{6})Z\.mhl$", re.S)


@st.composite
def _scn(draw):
    s = draw(hist.scenarios_deep(CFG))
    if draw(st.integers(0, 3)) == 0 and not ({"A", "B"} & hist.top_names_used(s)):
        # two nested histories whose folders have the same base name (their manifests get identical names when a parent
        # run writes both in one clock second)
        s["tree"]["A"] = {"Clips": {"a.mov": "in A"}}
        s["tree"]["B"] = {"Clips": {"b.mov": "in B"}}
        pre = [{"op": "create", "root": r, "formats": draw(gen.formats(2)), "flags": []} for r in draw(st.permutations(["A/Clips", "B/Clips"]))]
        s["steps"] = pre + s["steps"] + [{"op": "create", "root": "", "formats": draw(gen.formats(2)), "flags": []}]
        s["same_named_children"] = True
    if draw(st.integers(0, 3)) == 0 and "N" not in hist.top_names_used(s):
        # a file inside a nested history is altered and then named by a -sf run on the outer root (exit 11)
        s["tree"]["N"] = {"reel": {"x.mov": "as recorded", "y.mov": "stays"}, "beside.mov": "b"}
        fm = draw(gen.formats(2))
        s["steps"] = [{"op": "create", "root": "N/reel", "formats": fm, "flags": []}] + s["steps"] + [
            {"op": "create", "root": "", "formats": fm, "flags": []}, {"op": "overwrite", "path": "N/reel/x.mov", "spec": "altered afterwards"},
            {"op": "create_sf", "root": draw(st.sampled_from(["", "N"])), "formats": fm, "flags": [], "sf": draw(st.sampled_from([["N/reel/x.mov"], ["N/reel"], ["N/reel/y.mov", "N/reel/x.mov"]]))}]
    s["frozen"] = draw(st.sampled_from([None, None, "2020-01-15 13:00:00", "1999-12-31 23:59:59"]))
    s["tz"] = draw(st.sampled_from([None, None, "IST-5:30", "America/Los_Angeles", "Pacific/Kiritimati"])) if s["frozen"] is None else None
    return s


def strategy(tier):
    return _scn()


def enumerated(tier):
    """folder names up to the longest one whose manifest name (NNNN_<folder>_<UTC>Z.mhl) still fits into 255 bytes"""
    for n in (200, 219, 220, 224, 227):
        for nested in (False, True):
            long_ = "L" * (n - 4) + "%04d" % n
            tree = {"a.mov": "alpha", "sub": {"b.mov": "beta"}}
            if nested:
                yield {"root": "top", "tree": {long_: tree, "c.mov": "gamma"}, "frozen": None, "tz": None, "spell": "abs", "steps": [
                    {"op": "create", "root": long_, "formats": ["md5"], "flags": []}, {"op": "create", "root": "", "formats": ["xxh64"], "flags": []},
                    {"op": "overwrite", "path": long_ + "/a.mov", "spec": "altered"}, {"op": "create", "root": "", "formats": ["md5"], "flags": []},
                    {"op": "create_sf", "root": "", "formats": ["md5"], "flags": [], "sf": [long_ + "/sub/b.mov"]}]}
            else:
                yield {"root": long_, "tree": tree, "frozen": None, "tz": None, "spell": "abs", "steps": [
                    {"op": "create", "root": "", "formats": ["md5"], "flags": []}, {"op": "create", "root": "", "formats": ["md5", "c4"], "flags": ["-n"]},
                    {"op": "rm", "path": "a.mov"}, {"op": "create", "root": "", "formats": ["md5"], "flags": []},
                    {"op": "create_sf", "root": "", "formats": ["sha1"], "flags": [], "sf": ["sub/b.mov"]}]}


def group_by_history(asc):
    out = {}
    for p, b in asc.items():
        out.setdefault(posixpath.dirname(posixpath.dirname(p)), {})[posixpath.basename(p)] = b
    return out


def observe(w, before, after, res, t0, t1, frozen, ctx, stats, invoked=None, sf=None):
    b = group_by_history(before)
    a = group_by_history(after)
    if sf is not None and res.exc is None and res.exit_code in (0, 10, 11):
        # -sf: the history that owns a named file, and every history between it and the invoked root, receives the new
        # generation - also when the file fails verification (the failure is documented where the file is on record)
        sfroot, named = sf
        roots = w.history_roots()
        for pth in named:
            for f in ([pth] if pth in w.files else w.media_files(pth)):
                if w.is_default_ignored(f):
                    continue
                own = w.deepest_root(f, roots)
                for h in roots:
                    if own is not None and w.under(own, h) and w.under(h, sfroot):
                        require(a.get(h) != b.get(h), "sf-generation", "create -sf %r (%s) wrote no generation into %r, which lies on the way to the history that owns the file" % (f, res.brief(), h), res)
                        if h != sfroot and res.exit_code == 11:
                            ctx.event("failing_sf_into_nested_history")
    if invoked is not None and res.exc is None and res.exit_code in (0, 10, 11):
        # folder mode: the history of the invoked root always receives the new generation (even if the folder is empty)
        require(a.get(invoked) != b.get(invoked), "root-generation", "create on %r (%s) wrote no generation for it" % (invoked, res.brief()), res)
        if not w.media_files(invoked):
            ctx.event("empty_root_sealed")
        # ... and so does every history below it, however many plain folders or other histories lie in between
        import os as _os

        for h in b:
            if h != invoked and w.under(h, invoked) and _os.path.isdir(w.abs(h)):
                require(a.get(h) != b.get(h), "nested-generation", "create on %r (%s) wrote no generation into the nested history %r" % (invoked, res.brief(), h), res)
                if posixpath.dirname(h) != invoked and posixpath.dirname(h) not in b:
                    ctx.event("nested_history_below_plain_folder")
    for h, files in b.items():
        require(h in a, "append-only", "ascmhl folder of %r vanished (%s)" % (h, res.brief()), res)
        for fn, data in files.items():
            if fn.endswith(".mhl"):
                require(fn in a[h], "append-only", "manifest %s/%s removed (%s)" % (h, fn, res.brief()), res)
                require(a[h][fn] == data, "append-only", "manifest %s/%s changed (%s)" % (h, fn, res.brief()), res)
    if res.exc is not None:
        return
    for h, files in a.items():
        old = b.get(h, {})
        if files == old:
            continue
        new = sorted(set(files) - set(old))
        newm = [f for f in new if f != CHAIN]
        require(len(newm) == 1, "one-new", "history %r gained %s (%s)" % (h, newm, res.brief()), res)
        m = NAME_RE.match(newm[0])
        require(m is not None, "name", "new manifest name %r does not match NNNN_<folder>_<UTC>Z.mhl" % newm[0], res)
        oldnums = [int(f[:4]) for f in old if f.endswith(".mhl") and f[:4].isdigit()]
        num = int(m.group(1))
        require(num == max(oldnums, default=0) + 1, "number", "history %r: new generation %d after %s" % (h, num, sorted(oldnums)), res)
        require(m.group(2) == posixpath.basename(h), "name", "folder part %r, root is %r" % (m.group(2), h), res)
        ts = datetime.datetime.strptime(m.group(3), "%Y-%m-%d_%H%M%S").replace(tzinfo=datetime.timezone.utc).timestamp()
        if frozen:
            want = datetime.datetime.strptime(frozen, "%Y-%m-%d %H:%M:%S").replace(tzinfo=datetime.timezone.utc).timestamp()
            require(ts == want, "name-time", "name time %s, frozen clock %s" % (m.group(3), frozen), res)
        else:
            require(int(t0) <= ts <= int(t1), "name-time", "name time %s outside run window [%s, %s] UTC" % (m.group(3), t0, t1), res)
        require(CHAIN in files, "chain", "history %r has no chain file after the run" % h, res)
        try:
            chain = refxml.read_chain(files[CHAIN])
            oldchain = refxml.read_chain(old[CHAIN]) if CHAIN in old else []
        except Exception as e:
            require(False, "chain", "chain of %r unreadable: %s" % (h, e), res)
        require(chain[:-1] == oldchain, "chain-prefix", "history %r: earlier chain entries changed: %r -> %r" % (h, oldchain, chain[:-1]), res)
        require(len(chain) == len(oldchain) + 1, "chain-prefix", "history %r: chain went from %d to %d entries" % (h, len(oldchain), len(chain)), res)
        last = chain[-1]
        want = {"seq": str(num), "path": newm[0], "fmt": "c4", "digest": refhash.digest("c4", files[newm[0]])}
        require(last == want, "chain-entry", "history %r: new chain entry %r, expected %r" % (h, last, want), res)
        # reload through the tool
        from ascmhl.history import MHLHistory

        try:
            loaded = MHLHistory.load_from_path(w.abs(h))
        except Exception as e:
            require(False, "reload", "history %r does not load after the run: %s: %s" % (h, type(e).__name__, str(e)[:200]), res)
        nums = [hl.generation_number for hl in loaded.hash_lists]
        require(nums == list(range(1, len(nums) + 1)) and len(nums) == len(oldnums) + 1, "reload", "history %r reloads as generations %s" % (h, nums), res)
        stats["gens"][h] = len(nums)
        stats["stamps"].setdefault(h, []).append(m.group(3))
        extra = [f for f in files if not (f == CHAIN or f.endswith(".mhl"))]
        require(not extra, "one-new", "unexpected files in ascmhl folder of %r: %s" % (h, extra), res)


def run_case(scn, ctx):
    stats = {"gens": {}, "stamps": {}}
    failed_run = False
    sf = False
    import os as _os

    old_tz = _os.environ.get("TZ")
    if scn.get("tz"):
        _os.environ["TZ"] = scn["tz"]
        time.tzset()
        ctx.event("non_utc_host_zone")
    try:
        return _run(scn, ctx, stats)
    finally:
        if scn.get("tz"):
            if old_tz is None:
                _os.environ.pop("TZ", None)
            else:
                _os.environ["TZ"] = old_tz
            time.tzset()


def _run(scn, ctx, stats):
    failed_run = False
    sf = False
    with World("c06") as w:
        hist.setup_world(w, scn)
        for step in scn["steps"]:
            if step["op"] in ("create", "create_sf"):
                before = w.asc_files()
                t0 = time.time()
                res = hist.apply_step(w, scn, step, frozen=scn.get("frozen"))
                t1 = time.time()
                after = w.asc_files()
                observe(w, before, after, res, t0, t1, scn.get("frozen"), ctx, stats, invoked=hist.wpath(scn, step["root"]) if step["op"] == "create" else None,
                        sf=(hist.wpath(scn, step["root"]), [hist.wpath(scn, x) for x in step["sf"]]) if step["op"] == "create_sf" else None)
                failed_run |= res.exit_code in (10, 11)
                sf |= step["op"] == "create_sf"
            else:
                hist.apply_step(w, scn, step)
        deep = any(n >= 3 for n in stats["gens"].values())
        same = any(len(set(v)) < len(v) for v in stats["stamps"].values())
        nested = len(w.history_roots()) >= 2
        if scn.get("same_named_children"):
            ctx.event("same_named_children")
        if any(len(posixpath.basename(h)) >= 219 for h in w.history_roots()):
            ctx.event("folder_name>=219_bytes")
        for flag, name in ((deep, "gens>=3"), (failed_run, "failed_run"), (same, "same_second"), (nested, "nested"), (sf, "sf")):
            if flag:
                ctx.event(name)
        ctx.mark_nontrivial(deep and (failed_run or same or nested))
        return w.trace

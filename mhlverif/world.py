"""Scratch tree + naive reference model + in-process command execution.

All paths handed to a World are POSIX paths relative to the world's base directory; the base lives under
/dev/shm (fallback: $TMPDIR) and is removed by close().  The model is deliberately simple: a dict of file
contents, a set of directories, and - per (history root, path) - the bytes that were on disk when the path
was first recorded there.  It is updated by the harness's own operations, never by reading what the tool wrote.
"""
import contextlib
import hashlib
import itertools
import os
import shutil
import stat
import sys
import tempfile
import traceback

from . import refxml

ASC = "ascmhl"
CHAIN = "ascmhl_chain.xml"
_counter = itertools.count()


def scratch_parent():
    p = os.environ.get("MHLVERIF_SCRATCH")
    if p:
        return p
    if os.path.isdir("/dev/shm") and os.access("/dev/shm", os.W_OK):
        return "/dev/shm"
    return tempfile.gettempdir()


def content_bytes(spec) -> bytes:
    """content spec -> bytes.  spec is either a str (utf-8 text) or [hexpattern, length]"""
    if isinstance(spec, str):
        return spec.encode("utf-8")
    pat, length = spec
    pat = bytes.fromhex(pat) or b"\0"
    reps = length // len(pat) + 1
    return (pat * reps)[:length]


class Result:
    __slots__ = ("cmd", "args", "exit_code", "stdout", "stderr", "exc", "exc_type", "frame", "tb")

    def __init__(self, cmd, args, exit_code, stdout, stderr, exc):
        self.cmd = cmd
        self.args = args
        self.exit_code = exit_code
        self.stdout = stdout
        self.stderr = stderr
        self.exc = exc
        self.exc_type = type(exc).__name__ if exc is not None else None
        self.frame = None
        self.tb = None
        if exc is not None and exc.__traceback__ is not None:
            frames = traceback.extract_tb(exc.__traceback__)
            self.tb = "".join(traceback.format_exception(type(exc), exc, exc.__traceback__))[-3000:]
            for fr in reversed(frames):
                if os.sep + "ascmhl" + os.sep in fr.filename:
                    self.frame = "%s:%s" % (os.path.basename(fr.filename), fr.name)
                    break

    @property
    def output(self):
        return (self.stdout or "") + (self.stderr or "")

    @property
    def internal_error(self):
        """an exception other than a click exit escaped the command"""
        return self.exc is not None

    def brief(self):
        s = "%s %s -> exit %s" % (self.cmd, " ".join(self.args), self.exit_code)
        if self.exc is not None:
            s += " [%s: %s at %s]" % (self.exc_type, str(self.exc)[:200], self.frame)
        return s


class World:
    def __init__(self, tag="w"):
        parent = scratch_parent()
        self.base = os.path.join(parent, "mhlverif.%d.%d.%s" % (os.getpid(), next(_counter), tag))
        if os.path.exists(self.base):
            shutil.rmtree(self.base)
        os.makedirs(self.base)
        self.files = {}  # relpath -> bytes
        self.dirs = set()  # relpath
        self.first = {}  # (history root, relpath) -> bytes when first recorded in that history
        self.recorded_dirs = set()  # (history root, relpath)
        self.trace = []
        self.results = []

    # ------------------------------------------------------------------ paths
    def abs(self, rel):
        if rel.endswith("/") and len(rel) > 1:
            return os.path.join(self.base, *rel[:-1].split("/")) + os.sep  # a root typed with a trailing separator
        return os.path.join(self.base, *rel.split("/")) if rel else self.base

    def rel(self, absolute):
        r = os.path.relpath(absolute, self.base)
        return "" if r == "." else r.replace(os.sep, "/")

    def close(self):
        shutil.rmtree(self.base, ignore_errors=True)

    def __enter__(self):
        return self

    def __exit__(self, *a):
        self.close()

    # ------------------------------------------------------------------ tree operations (model + disk)
    def _ensure_parents(self, rel):
        parts = rel.split("/")[:-1]
        for i in range(1, len(parts) + 1):
            d = "/".join(parts[:i])
            if d not in self.dirs:
                self.dirs.add(d)
                os.makedirs(self.abs(d), exist_ok=True)

    def mkdir(self, rel):
        self._ensure_parents(rel + "/x")
        self.trace.append(["mkdir", rel])

    def put(self, rel, spec, mtime=None):
        data = spec if isinstance(spec, bytes) else content_bytes(spec)
        self._ensure_parents(rel)
        with open(self.abs(rel), "wb") as fh:
            fh.write(data)
        self.files[rel] = data
        if mtime is not None:
            os.utime(self.abs(rel), (mtime, mtime))
        self.trace.append(["put", rel, len(data)])

    def symlink(self, rel, target_rel):
        """a symbolic link to a regular file of the tree; the model treats it as a file with the target's bytes"""
        self._ensure_parents(rel)
        os.symlink(self.abs(target_rel), self.abs(rel))
        self.files[rel] = self.files[target_rel]
        self.trace.append(["symlink", rel, target_rel])

    def rm(self, rel):
        os.remove(self.abs(rel))
        del self.files[rel]
        self.trace.append(["rm", rel])

    def rmtree(self, rel):
        shutil.rmtree(self.abs(rel))
        for f in [f for f in self.files if f == rel or f.startswith(rel + "/")]:
            del self.files[f]
        for d in [d for d in self.dirs if d == rel or d.startswith(rel + "/")]:
            self.dirs.discard(d)
        self.trace.append(["rmtree", rel])

    def mv(self, src, dst):
        """move a file or a directory (with everything below it)"""
        self._ensure_parents(dst)
        os.rename(self.abs(src), self.abs(dst))
        if src in self.files:
            self.files[dst] = self.files.pop(src)
        else:
            for f in [f for f in self.files if f.startswith(src + "/")]:
                self.files[dst + f[len(src) :]] = self.files.pop(f)
            for d in [d for d in self.dirs if d == src or d.startswith(src + "/")]:
                self.dirs.discard(d)
                self.dirs.add(dst + d[len(src) :])
        self.trace.append(["mv", src, dst])

    def touch(self, rel, t):
        os.utime(self.abs(rel), (t, t))
        self.trace.append(["touch", rel, t])

    def build(self, root, tree):
        """tree: nested dict name -> spec | dict"""
        self.mkdir(root)

        def walk(prefix, node):
            for name, child in node.items():
                p = prefix + "/" + name
                if isinstance(child, dict):
                    self.mkdir(p)
                    walk(p, child)
                else:
                    self.put(p, child)

        walk(root, tree)

    # ------------------------------------------------------------------ model queries
    def history_roots(self):
        """directories (rel) that contain an ascmhl folder on disk, shallowest first"""
        out = []
        for dirpath, dirnames, _ in os.walk(self.base):
            if ASC in dirnames:
                out.append(self.rel(dirpath))
                dirnames.remove(ASC)
        return sorted(out, key=lambda p: (p.count("/"), p))

    @staticmethod
    def under(path, root):
        return path == root or root == "" or path.startswith(root + "/")

    def deepest_root(self, path, roots, for_dir_entry=False):
        """deepest history root containing path.  A nested root itself, seen as an entry of its parent
        (for_dir_entry), belongs to the next root up."""
        best = None
        for r in roots:
            if self.under(path, r):
                if for_dir_entry and path == r:
                    continue
                if best is None or len(r) > len(best):
                    best = r
        return best

    def media_files(self, root=""):
        return sorted(f for f in self.files if self.under(f, root) and not self.is_default_ignored(f))

    def media_dirs(self, root=""):
        return sorted(
            d for d in self.dirs if d != root and self.under(d, root) and not self.is_default_ignored(d)
        )

    @staticmethod
    def is_default_ignored(rel):
        parts = rel.split("/")
        return ASC in parts or ".DS_Store" in parts

    def subtree(self, root):
        """nested dict of the model below root (default-ignored names left out)"""
        tree = {}
        for d in self.media_dirs(root):
            node = tree
            for part in d[len(root) + 1 :].split("/") if root else d.split("/"):
                node = node.setdefault(part, {})
        for f in self.media_files(root):
            relf = f[len(root) + 1 :] if root else f
            parts = relf.split("/")
            node = tree
            for part in parts[:-1]:
                node = node.setdefault(part, {})
            node[parts[-1]] = self.files[f]
        return tree

    # ------------------------------------------------------------------ disk queries
    def asc_files(self, root=""):
        """rel path -> bytes for every file inside any ascmhl folder at or below root"""
        out = {}
        for dirpath, dirnames, filenames in os.walk(self.abs(root)):
            if os.path.basename(dirpath) == ASC:
                for fn in filenames:
                    p = os.path.join(dirpath, fn)
                    with open(p, "rb") as fh:
                        out[self.rel(p)] = fh.read()
                dirnames[:] = []
        return out

    def asc_listing(self):
        """set of rel paths of everything (dirs and files) inside or being an ascmhl folder"""
        out = set()
        for dirpath, dirnames, filenames in os.walk(self.base):
            reld = self.rel(dirpath)
            if ASC in reld.split("/"):
                out.add(reld)
                for fn in filenames:
                    out.add(reld + "/" + fn)
        return out

    def snapshot(self, root=""):
        """rel path -> (type, sha1 of bytes | None, size, mtime_ns, mode) for everything at or below root"""
        out = {}
        top = self.abs(root)

        def add(p):
            st = os.lstat(p)
            if stat.S_ISDIR(st.st_mode):
                out[self.rel(p)] = ("d", None, None, st.st_mtime_ns, stat.S_IMODE(st.st_mode))
            elif stat.S_ISREG(st.st_mode):
                with open(p, "rb") as fh:
                    h = hashlib.sha1(fh.read()).hexdigest()
                out[self.rel(p)] = ("f", h, st.st_size, st.st_mtime_ns, stat.S_IMODE(st.st_mode))
            else:
                out[self.rel(p)] = ("o", None, None, st.st_mtime_ns, stat.S_IMODE(st.st_mode))

        add(top)
        for dirpath, dirnames, filenames in os.walk(top):
            for n in dirnames + filenames:
                add(os.path.join(dirpath, n))
        return out

    def manifests(self, root):
        """sorted list of (generation number, rel path) of the *.mhl files in root's ascmhl folder"""
        d = self.abs((root + "/" if root else "") + ASC)
        out = []
        if os.path.isdir(d):
            for fn in os.listdir(d):
                if fn.endswith(".mhl") and fn[:4].isdigit():
                    out.append((int(fn.split("_", 1)[0]), (root + "/" if root else "") + ASC + "/" + fn))
        return sorted(out)

    def read_history(self, root):
        """[(generation, relpath of manifest, refxml dict)] ascending"""
        return [(n, p, refxml.read_manifest(self.abs(p))) for n, p in self.manifests(root)]

    # ------------------------------------------------------------------ running commands
    def run(self, cmd, args, cwd=None, frozen=None, group=None, env=None):
        """invoke ascmhl.commands.<cmd> (or a CLI group) in-process.  args are final strings."""
        import ascmhl.commands
        import ascmhl.logger
        from click.testing import CliRunner

        ascmhl.logger.verbose_logging = False
        ascmhl.logger.debug_logging = False
        runner = CliRunner(mix_stderr=False)
        if group is not None:
            func = group
            argv = [cmd.replace("_", "-")] + list(args)
        else:
            func = getattr(ascmhl.commands, cmd)
            argv = list(args)
        old = os.getcwd()
        ctx = contextlib.nullcontext()
        if frozen is not None:
            from freezegun import freeze_time

            ctx = freeze_time(frozen)
        try:
            os.chdir(cwd or self.base)
            with ctx:
                res = runner.invoke(func, argv, catch_exceptions=True, env=env)
        finally:
            os.chdir(old)
        exc = res.exception if (res.exception is not None and not isinstance(res.exception, SystemExit)) else None
        try:
            err = res.stderr
        except ValueError:
            err = ""
        r = Result(cmd, argv, res.exit_code, res.stdout, err, exc)
        self.trace.append(["run", cmd] + [a.replace(self.base, "$W") for a in argv] + ["=> %s" % r.exit_code])
        self.results.append(r)
        return r

    def spelled(self, root, spell):
        """how a root folder is typed on the command line -> (argument, working directory or None)"""
        root = root.rstrip("/") if len(root) > 1 else root
        if spell == "slash":
            return self.abs(root) + os.sep, None
        if spell == "rel" and root:
            a = os.path.basename(self.abs(root))
            return ("./" + a if a.startswith("-") else a), os.path.dirname(self.abs(root))
        if spell == "dot" and root:
            return ".", self.abs(root)
        return self.abs(root), None

    def create(self, root, formats=("xxh64",), sf=None, flags=(), extra=(), spell="abs", sf_spell=None, **kw):
        a0, cwd = self.spelled(root, spell)
        if cwd is not None:
            kw = dict(kw, cwd=cwd)
        args = [a0]
        for f in formats:
            args += ["-h", f]
        args += list(flags)
        for s in sf or ():
            sp = self.abs(s)
            if spell in ("dot", "rel") and cwd is not None:
                # with a relative root the files are named relative to the working directory, too
                sp = os.path.relpath(sp, cwd)
                if sp.startswith("-"):
                    sp = "./" + sp
            if sf_spell:
                # the same file, typed in a form that is not normalised: a/./b or a/../a/b
                head, tail = os.path.split(sp)
                if sf_spell == "dotdot" and head not in ("", "/", ".") and os.path.basename(head) not in ("", ".", ".."):
                    sp = os.path.join(head, "..", os.path.basename(head), tail)
                else:
                    sp = os.path.join(head or ".", ".", tail) if head else "./" + tail
            args += ["-sf", sp]
        args += list(extra)
        roots_before = self.history_roots()
        root = root.rstrip("/") if len(root) > 1 else root
        r = self.run("create", args, **kw)
        if r.exit_code in (0, 10, 11, 30) and r.exc is None:
            self._note_recorded(root, sf, roots_before)
        return r

    def _note_recorded(self, root, sf, roots_before):
        """model update after a create that wrote its generation: remember first-recorded bytes"""
        roots = set(roots_before) | {root}
        if sf:
            files = []
            for s in sf:
                if s in self.files:
                    files.append(s)
                else:
                    files += self.media_files(s)
            dirs = []
        else:
            files = self.media_files(root)
            dirs = self.media_dirs(root)
        for f in files:
            h = self.deepest_root(f, roots)
            self.first.setdefault((h, f), self.files[f])
        for d in dirs:
            h = self.deepest_root(d, roots, for_dir_entry=True)
            self.recorded_dirs.add((h, d))
            if d in roots:
                pass

    def verify(self, root, flags=(), spell="abs", **kw):
        a0, cwd = self.spelled(root, spell)
        if cwd is not None:
            kw = dict(kw, cwd=cwd)
        return self.run("verify", [a0] + list(flags), **kw)

    def diff(self, root, flags=(), spell="abs", **kw):
        a0, cwd = self.spelled(root, spell)
        if cwd is not None:
            kw = dict(kw, cwd=cwd)
        return self.run("diff", [a0] + list(flags), **kw)

    def info(self, root=None, sf=None, flags=(), **kw):
        args = []
        for s in sf or ():
            args += ["-sf", self.abs(s)]
        if root is not None:
            args.append(self.abs(root))
        return self.run("info", args + list(flags), **kw)

    def flatten(self, root, dest, flags=(), **kw):
        # the destination's parent must exist (the tool creates the destination itself and the collection folder)
        os.makedirs(os.path.dirname(self.abs(dest)), exist_ok=True)
        return self.run("flatten", [self.abs(root), self.abs(dest)] + list(flags), **kw)


class Violation(Exception):
    """an oracle failed.  clause: short id of the property clause; detail: human text"""

    def __init__(self, clause, detail, result=None, extra=None):
        super().__init__("%s: %s" % (clause, detail))
        self.clause = clause
        self.detail = detail
        self.result = result
        self.extra = extra

    def signature(self):
        r = self.result
        if r is not None and r.exc is not None:
            return "%s|%s|%s" % (self.clause, r.exc_type, r.frame)
        return "%s||" % self.clause


def require(cond, clause, detail, result=None):
    if not cond:
        if callable(detail):
            detail = detail()
        raise Violation(clause, detail, result)

#!/venv/bin/python
"""tools/mkmutant.py ID NAME FILE <<< JSON [[old,new],...]  -> mutants/ID/NAME.diff (unified diff against /repo)"""
import difflib, json, os, sys
HERE = os.path.dirname(os.path.dirname(os.path.abspath(__file__)))


def make(pid, name, relfile, pairs):
    src = open(os.path.join("/repo", relfile)).read()
    new = src
    for old, rep in pairs:
        assert new.count(old) == 1, (pid, name, "pattern occurs %d times" % new.count(old), old[:80])
        new = new.replace(old, rep)
    diff = "".join(difflib.unified_diff(src.splitlines(True), new.splitlines(True), "a/" + relfile, "b/" + relfile))
    os.makedirs(os.path.join(HERE, "mutants", pid), exist_ok=True)
    with open(os.path.join(HERE, "mutants", pid, name + ".diff"), "w") as fh:
        fh.write(diff)


if __name__ == "__main__":
    make(sys.argv[1], sys.argv[2], sys.argv[3], json.load(sys.stdin))

#!/venv/bin/python
"""Regenerates /verif/MANIFEST.json from the property modules that exist (claims) and NOT_APPLICABLE below."""
import importlib, json, os, sys

HERE = os.path.dirname(os.path.dirname(os.path.abspath(__file__)))
sys.path.insert(0, HERE)

ALL = ["C%02d" % i for i in range(1, 21)]
NOT_APPLICABLE = {}
PENDING_REASON = "check not built yet in this revision of /verif (planned in DESIGN.md section 4); nothing is claimed for it"


def level_text(mod):
    doc = " ".join(x.strip() for x in mod.__doc__.strip().splitlines())
    why = {
        "exploration": "Exploration: a seeded, sharded random search over generated cases judged by an oracle that does not reuse the code under test; it shows the property on everything generated (counts, classes and samples are in the evidence) and cannot show absence of violations - the right level for a quantifier over unbounded trees, names, histories and option combinations.",
        "fault_enumeration": "Fault enumeration: inside every generated case the fault space named by the property (crash points / tampered manifests x commands / mutations x commands / server behaviours x release points) is enumerated completely or by class, on top of the random search over worlds; exhaustive per case, sampled over cases.",
    }[mod.LEVEL]
    return (doc[:1400] + " " + why).strip()


def main():
    checks, na = [], []
    for pid in ALL:
        path = os.path.join(HERE, "mhlverif", "props", pid.lower() + ".py")
        if pid in NOT_APPLICABLE:
            na.append({"property_id": pid, "reason": NOT_APPLICABLE[pid]})
            continue
        if not os.path.exists(path):
            na.append({"property_id": pid, "reason": PENDING_REASON})
            continue
        mod = importlib.import_module("mhlverif.props." + pid.lower())
        checks.append(
            {
                "property_id": pid,
                "quick_cmd": "./check %s --tier quick" % pid,
                "thorough_cmd": "./check %s --tier thorough" % pid,
                "evidence_file": "evidence/%s.json" % pid,
                "replay_cmd_template": "./check %s --replay {path}" % pid,
                "engine": "mhlverif",
                "level_claimed": {
                    "category": mod.LEVEL,
                    "text": level_text(mod),
                    "design_ref": "DESIGN.md section 4, %s" % pid,
                },
                "level_note": "; ".join(getattr(mod, "ASSUMPTIONS", [])) or "oracle independence as described in DESIGN.md section 1",
                "technique": getattr(mod, "TECHNIQUE", "property-based testing (Hypothesis) against an independent oracle"),
            }
        )
    manifest = {
        "version": 1,
        "setup_cmd": "./setup.sh",
        "hooks": {
            "guard": "ASCMITC_MHL_VERIF",
            "enable": "no source hooks exist: checks import ascmhl from /repo's working tree (editable install) and interpose from outside (CliRunner, patched os/open/requests.get, TZ)",
            "baseline_off_cmd": "cd /repo && /venv/bin/python -m pytest -ra -q -p no:cacheprovider --timeout=900 --continue-on-collection-errors",
            "source_commits": [],
            "add_only": True,
        },
        "engines": [
            {
                "name": "mhlverif",
                "path": "mhlverif/",
                "serves_properties": [c["property_id"] for c in checks],
                "kind_free_text": "Hypothesis-driven generated scenarios executed in-process against ascmhl, judged by reference digests, an independent XML reader, XSD validation and a naive tree/history model; failures are shrunk into JSON replay files",
            }
        ],
        "checks": checks,
        "not_applicable": na,
        "notes": "exit 0 held / 1 VIOLATION / 2 harness error. VERIF_SEED selects the Hypothesis seed (seed*1000+shard). Regression replays in replay/<ID>/ run first in every check.",
    }
    # plain-text view of known_findings.json (same content, one line per entry)
    kf = json.load(open(os.path.join(HERE, "known_findings.json")))["findings"]
    with open(os.path.join(HERE, "known_findings.txt"), "w") as fh:
        fh.write("# generated from known_findings.json by tools/mkmanifest.py - never written at check run time\n")
        for k in kf:
            if k["status"] == "fixed":
                fh.write(k["line"] + "\n")
            else:
                fh.write("known-finding: property=%s %s: %s (signature %s, predicate %s, replay %s)\n" % (k["property"], k["id"], k["what"], k["signature"], k.get("predicate"), k.get("replay")))
    with open(os.path.join(HERE, "MANIFEST.json"), "w") as fh:
        json.dump(manifest, fh, indent=1)
        fh.write("\n")
    try:
        import jsonschema
        jsonschema.validate(manifest, json.load(open("/root/.vp/MANIFEST.schema.json")))
        print("manifest valid:", len(checks), "checks,", len(na), "not claimed")
    except ImportError:
        print("manifest written (jsonschema not available here):", len(checks), "checks")


main()

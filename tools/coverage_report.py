#!/venv/bin/python
"""Measuring aid (not a check): run the quick tier of the given checks (default all) with line/branch coverage of the
ascmhl package switched on and print, per source file, the lines no check executed.
usage: tools/coverage_report.py [ID ...]"""
import glob, os, shutil, subprocess, sys, tempfile
HERE = os.path.dirname(os.path.dirname(os.path.abspath(__file__)))


def main():
    ids = sys.argv[1:] or ["C%02d" % i for i in range(1, 21)]
    d = tempfile.mkdtemp(prefix="mhlcov.", dir="/dev/shm")
    try:
        for i in ids:
            r = subprocess.run([os.path.join(HERE, "check"), i, "--tier", "quick"], env=dict(os.environ, MHLVERIF_COV=d), capture_output=True, text=True)
            print(i, "exit", r.returncode, (r.stdout.strip().splitlines() or [""])[-2][:100])
        import coverage

        cov = coverage.Coverage(data_file=os.path.join(d, "combined"), branch=True)
        cov.combine(glob.glob(os.path.join(d, "cov.*")))
        cov.save()
        cov.report(show_missing=True, skip_empty=True)
    finally:
        shutil.rmtree(d, ignore_errors=True)


main()

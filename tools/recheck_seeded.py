#!/venv/bin/python
"""Re-run the quick check of every stored seeded change (seeded/<ID>_<X>/patch.diff) against a scratch copy of /repo
with the patch applied; updates meta.json['checks_quick'] and prints one line per change.
usage: tools/recheck_seeded.py [ID ...]   (default: all)"""
import concurrent.futures, glob, json, os, shutil, subprocess, sys, tempfile
HERE = os.path.dirname(os.path.dirname(os.path.abspath(__file__)))


def one(d):
    key = os.path.basename(d)
    pid = key.split("_")[0]
    if json.load(open(os.path.join(d, "meta.json"))).get("superseded"):
        return key, "SUPERSEDED", []
    scratch = tempfile.mkdtemp(prefix="mhlseed.", dir="/dev/shm")
    copy = os.path.join(scratch, "repo")
    try:
        shutil.copytree("/repo", copy, ignore=shutil.ignore_patterns(".git", "__pycache__", "*.pyc"))
        r = subprocess.run(["patch", "-p1", "-s", "-d", copy, "-i", os.path.join(d, "patch.diff")], capture_output=True, text=True)
        base = None
        if r.returncode != 0:
            # written against an earlier /repo HEAD (before a later fix: commit touched the same lines): evaluate there
            base = json.load(open(os.path.join(d, "meta.json"))).get("base_commit", "353227e")
            shutil.rmtree(copy)
            os.makedirs(copy)
            a = subprocess.Popen(["git", "-C", "/repo", "archive", base], stdout=subprocess.PIPE)
            subprocess.run(["tar", "-x", "-C", copy], stdin=a.stdout, check=True)
            a.wait()
            r = subprocess.run(["patch", "-p1", "-s", "-d", copy, "-i", os.path.join(d, "patch.diff")], capture_output=True, text=True)
            if r.returncode != 0:
                return key, "NOAPPLY", []
        env = dict(os.environ, PYTHONPATH=copy + os.pathsep + HERE, MHLVERIF_REPO=copy, PYTHONDONTWRITEBYTECODE="1")
        r = subprocess.run([os.path.join(HERE, "check"), pid, "--tier", "quick"], env=env, stdout=subprocess.PIPE, stderr=subprocess.STDOUT, text=True)
        viol = [l[:160] for l in r.stdout.splitlines() if l.startswith("violation:")][:4]
        res = "KILLED" if r.returncode == 1 else ("HARNESS-ERROR" if r.returncode == 2 else "SURVIVED")
        mp = os.path.join(d, "meta.json")
        m = json.load(open(mp))
        m.setdefault("checks_quick", {})[pid] = {"exit": r.returncode, "result": res, "clauses": viol}
        if base:
            m["checks_quick"][pid]["evaluated_on_repo_commit"] = base
            m["note_base"] = "the patch no longer applies to /repo HEAD (a later fix: commit rewrote the same lines); it is evaluated on a copy of commit %s" % base
        json.dump(m, open(mp, "w"), indent=1)
        return key, res, viol
    finally:
        shutil.rmtree(scratch, ignore_errors=True)


def main():
    ids = sys.argv[1:]
    dirs = sorted(d for d in glob.glob(os.path.join(HERE, "seeded", "C*_*")) if os.path.isdir(d) and (not ids or os.path.basename(d).split("_")[0] in ids))
    with concurrent.futures.ThreadPoolExecutor(5) as ex:
        res = list(ex.map(one, dirs))
    bad = 0
    for key, r, viol in res:
        if r not in ("KILLED", "SUPERSEDED"):
            bad += 1
        print("%-8s %s %s" % (key, r, "; ".join(v.split("|")[0].replace("violation: ", "") for v in viol)[:100]))
    print("%d changes, %d not killed" % (len(res), bad))
    return 1 if bad else 0


sys.exit(main())

#!/venv/bin/python
"""Evaluate sub-agent seeded changes: tools/eval_seeded.py C02 [C08 ...]
For /tmp/seedout_<ID>/{A,B}.diff: apply to a scratch copy of /repo, run the repo tests (must pass), run the demo
against the changed copy (must exit 1) and against /repo (must exit 0), run ./check <ID> against the changed copy.
Confirmed changes are stored as /verif/seeded/<ID>_<X>/ (patch.diff, demo.py, meta.json)."""
import json, os, shutil, subprocess, sys, tempfile
HERE = os.path.dirname(os.path.dirname(os.path.abspath(__file__)))


def run(cmd, **kw):
    return subprocess.run(cmd, stdout=subprocess.PIPE, stderr=subprocess.STDOUT, text=True, **kw)


def evaluate(pid, x, extra_checks=()):
    src = {"A": "/tmp/seedout_%s", "B": "/tmp/seedout_%s", "C": "/tmp/seedout2_%s", "D": "/tmp/seedout2_%s", "E": "/tmp/seedout3_%s", "F": "/tmp/seedout3_%s",
           "G": "/tmp/seedout4_%s", "H": "/tmp/seedout4_%s", "I": "/tmp/seedout5_%s", "J": "/tmp/seedout5_%s", "K": "/tmp/seedout6_%s", "L": "/tmp/seedout6_%s", "M": "/tmp/seedout7_%s", "N": "/tmp/seedout7_%s"}[x] % pid
    patch, demo = os.path.join(src, x + ".diff"), os.path.join(src, x + "_demo.py")
    if not (os.path.exists(patch) and os.path.exists(demo)):
        print(pid, x, "MISSING FILES")
        return
    notes = {}
    try:
        notes = json.load(open(os.path.join(src, "notes.json"))).get(x, {})
    except Exception:
        pass
    scratch = tempfile.mkdtemp(prefix="mhlseed.", dir="/dev/shm")
    copy = os.path.join(scratch, "repo")
    meta = {"property": pid, "variant": x, "base_commit": subprocess.check_output(["git", "-C", "/repo", "rev-parse", "--short", "HEAD"], text=True).strip(), "summary": notes.get("summary"), "needs_to_manifest": notes.get("needs_to_manifest")}
    try:
        shutil.copytree("/repo", copy, ignore=shutil.ignore_patterns(".git", "__pycache__", "*.pyc"))
        r = run(["patch", "-p1", "-s", "-d", copy, "-i", patch])
        meta["applies"] = r.returncode == 0
        if r.returncode != 0:
            print(pid, x, "PATCH DOES NOT APPLY", r.stdout[-300:])
            return meta
        env = dict(os.environ, PYTHONPATH=copy, PYTHONDONTWRITEBYTECODE="1")
        r = run(["/venv/bin/python", "-m", "pytest", "-q", "-p", "no:cacheprovider", "--timeout=900", "tests"], cwd=copy, env=env)
        meta["repo_tests_pass_with_change"] = r.returncode == 0
        meta["repo_tests_tail"] = r.stdout.strip().splitlines()[-1] if r.stdout.strip() else ""
        r = run(["/venv/bin/python", demo], env=env, cwd=scratch, timeout=600)
        meta["demo_exit_with_change"] = r.returncode
        meta["demo_output_with_change"] = r.stdout[-600:]
        env0 = dict(os.environ, PYTHONPATH="/repo", PYTHONDONTWRITEBYTECODE="1")
        r = run(["/venv/bin/python", demo], env=env0, cwd=scratch, timeout=600)
        meta["demo_exit_without_change"] = r.returncode
        meta["confirmed"] = bool(meta["repo_tests_pass_with_change"] and meta["demo_exit_with_change"] == 1 and meta["demo_exit_without_change"] == 0)
        checks = {}
        for cid in [pid] + list(extra_checks):
            envc = dict(os.environ, PYTHONPATH=copy + os.pathsep + HERE, MHLVERIF_REPO=copy)
            r = run([os.path.join(HERE, "check"), cid, "--tier", "quick"], env=envc)
            viol = [l for l in r.stdout.splitlines() if l.startswith("violation:")]
            checks[cid] = {"exit": r.returncode, "result": "KILLED" if r.returncode == 1 else ("HARNESS-ERROR" if r.returncode == 2 else "SURVIVED"), "clauses": [v[:160] for v in viol[:4]]}
            if r.returncode == 2:
                checks[cid]["tail"] = r.stdout[-800:]
        meta["checks_quick"] = checks
        meta["ran"] = ["patch -p1 on a scratch copy of /repo", "pytest tests (repo suite)", "demo.py with and without the change", "./check %s --tier quick against the copy" % pid]
    finally:
        shutil.rmtree(scratch, ignore_errors=True)
    print("%s_%s confirmed=%s tests=%s demo(with/without)=%s/%s  %s" % (pid, x, meta.get("confirmed"), meta.get("repo_tests_pass_with_change"), meta.get("demo_exit_with_change"), meta.get("demo_exit_without_change"),
                                                              {k: v["result"] for k, v in meta.get("checks_quick", {}).items()}))
    if meta.get("confirmed"):
        d = os.path.join(HERE, "seeded", "%s_%s" % (pid, x))
        os.makedirs(d, exist_ok=True)
        shutil.copy(patch, os.path.join(d, "patch.diff"))
        shutil.copy(demo, os.path.join(d, "demo.py"))
        json.dump(meta, open(os.path.join(d, "meta.json"), "w"), indent=1)
    return meta


if __name__ == "__main__":
    variants = ("A", "B")
    args = sys.argv[1:]
    if args and args[0] == "--round2":
        variants = ("C", "D")
        args = args[1:]
    elif args and args[0] == "--round3":
        variants = ("E", "F")
        args = args[1:]
    elif args and args[0] == "--round4":
        variants = ("G", "H")
        args = args[1:]
    elif args and args[0] == "--round5":
        variants = ("I", "J")
        args = args[1:]
    elif args and args[0] == "--round6":
        variants = ("K", "L")
        args = args[1:]
    elif args and args[0] == "--round7":
        variants = ("M", "N")
        args = args[1:]
    for pid in args:
        for x in variants:
            evaluate(pid, x)

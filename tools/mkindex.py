#!/venv/bin/python
"""Regenerate seeded/INDEX.md from seeded/<ID>_<X>/meta.json (run tools/recheck_seeded.py first)."""
import glob, json, os
HERE = os.path.dirname(os.path.dirname(os.path.abspath(__file__)))


def cell(s, n):
    return (s or "").replace("\n", " ").replace("|", "/")[:n]


def main():
    rows, missed, rounds = [], 0, set()
    special = []
    for d in sorted(glob.glob(os.path.join(HERE, "seeded", "C*_*"))):
        if not os.path.isdir(d):
            continue
        key = os.path.basename(d)
        m = json.load(open(os.path.join(d, "meta.json")))
        pid = m["property"]
        rounds.add(m.get("round", 1))
        q = m.get("checks_quick", {}).get(pid, {})
        if m.get("superseded"):
            now = "SUPERSEDED (see meta.json)"
            special.append(key + " (superseded by a fix: commit)")
        else:
            clauses = "; ".join(sorted({c.split("|")[0].replace("violation: ", "").strip() for c in q.get("clauses", [])}))
            now = "%s (%s)" % (q.get("result"), clauses) if clauses else str(q.get("result"))
            others = [c for c, v in m.get("checks_quick", {}).items() if c != pid and v.get("result") == "KILLED"]
            if q.get("result") != "KILLED":
                now += (" - killed by %s" % ", ".join(others)) if others else (" - not pursued, see meta.json" if m.get("not_pursued") else " - see meta.json")
                special.append(key + (" (killed by %s)" % ", ".join(others) if others else " (not pursued)" if m.get("not_pursued") else ""))
        if m.get("initially_missed_by_quick_check"):
            missed += 1
        rows.append("| %s | %s | %s | %s | %s | %s |" % (key, m.get("round", 1), cell(m.get("summary"), 170), cell(m.get("needs_to_manifest"), 140), now, "yes" if m.get("initially_missed_by_quick_check") else "no"))
    out = ["# Seeded changes (independent sub-agents, confirmed in a scratch copy)", "",
           "Each directory: patch.diff, demo.py (exits 1 with the change, 0 without), meta.json (what was run, what it needs to manifest, and - if the quick check missed it at first - the strengthening that now catches it). `tools/recheck_seeded.py` re-runs the quick check of the property against every stored change; `tools/mkindex.py` rebuilds this table.", "",
           "%d confirmed changes in %d rounds; %d of them were missed when first evaluated. Not killed by the quick check of their own property: %s (reasons in their meta.json and in DESIGN.md 7.4)." % (len(rows), len(rounds), missed, ", ".join(special) or "none"), "",
           "| id | round | change | needs | quick check now | missed at first |", "|---|---|---|---|---|---|"] + rows + ["", "Dropped as unconfirmed (the repository's own test-suite fails with them in this environment): C06_A, C13_G.", ""]
    open(os.path.join(HERE, "seeded", "INDEX.md"), "w").write("\n".join(out))
    print(len(rows), "rows;", missed, "missed at first;", special)


main()
